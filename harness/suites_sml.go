package main

// suites_sml.go — SML text generators and the suites C04, C05, C06, C08, C15, C19.

import (
	"bufio"
	"encoding/hex"
	"flag"
	"fmt"
	"math"
	"math/big"
	"math/rand"
	"os"
	"regexp"
	"strconv"
	"strings"
	"unicode/utf8"

	"github.com/wolimst/lib-secs2-hsms-go/pkg/ast"
	"github.com/wolimst/lib-secs2-hsms-go/pkg/parser/sml"
)

func init() {
	suites["C05"] = suiteC05
	monitors["C05"] = monitorC05
	suites["C15"] = suiteC15
	monitors["C15"] = monitorC15
	suites["C06"] = suiteC06
	monitors["C06"] = monitorC06
	suites["C08"] = suiteC08
	monitors["C08"] = monitorC08
	suites["C19"] = suiteC19
	monitors["C19"] = monitorC19
	suites["C04"] = suiteC04
	monitors["C04"] = monitorC04
	extraCmds["hostile-sml"] = cmdHostileSml
}

// ---------- token-level generator ----------

type smlGen struct {
	g      *Gen
	vars   int
	ellips int
}

func caseMix(g *Gen, s string) string {
	if g.chance(0.7) {
		return s
	}
	b := []byte(s)
	for i := range b {
		if g.chance(0.5) {
			if b[i] >= 'a' && b[i] <= 'z' {
				b[i] -= 32
			} else if b[i] >= 'A' && b[i] <= 'Z' {
				b[i] += 32
			}
		}
	}
	return string(b)
}

var smlTypes = []string{"L", "A", "B", "BOOLEAN", "F4", "F8", "I1", "I2", "I4", "I8", "U1", "U2", "U4", "U8"}
var smlNames = []string{"AreYouThere", "OnLineData", "x", "Name_1", "établi", "名前", "a.b", "q-1", "N/A", "a/b", "x<y", "x>y", "R2D2", "_", "S1", "E", "é"}

func (sg *smlGen) varName() string {
	sg.vars++
	switch sg.g.pick(4) {
	case 0:
		return fmt.Sprintf("v%d", sg.vars)
	case 1:
		return fmt.Sprintf("name_%d[%d]", sg.vars, sg.g.pick(5))
	case 2:
		return fmt.Sprintf("_q%d[0][%d]", sg.vars, sg.g.pick(20))
	}
	return fmt.Sprintf("Var%dx", sg.vars)
}

// an integer literal spelling of v in some base and case
func intSpelling(g *Gen, v int64, neg bool, mag uint64) string {
	var s string
	switch g.pick(6) {
	case 0:
		s = "0x" + strconv.FormatUint(mag, 16)
	case 1:
		s = "0X" + strings.ToUpper(strconv.FormatUint(mag, 16))
	case 2:
		s = "0b" + strconv.FormatUint(mag, 2)
	case 3:
		s = "0o" + strconv.FormatUint(mag, 8)
	case 4:
		if mag != 0 {
			s = "0" + strconv.FormatUint(mag, 8)
		} else {
			s = "0"
		}
	default:
		s = strconv.FormatUint(mag, 10)
	}
	if neg {
		return "-" + s
	}
	if g.chance(0.1) {
		return "+" + s
	}
	return s
}

func (sg *smlGen) quoted(n int) string {
	g := sg.g
	b := make([]byte, n)
	for i := range b {
		for {
			c := byte(32 + g.pick(95))
			if c != '"' {
				b[i] = c
				break
			}
		}
	}
	return `"` + string(b) + `"`
}

// item returns the tokens of a data item
func (sg *smlGen) item(depth int, vars bool) []string {
	g := sg.g
	ty := smlTypes[g.pick(len(smlTypes))]
	if depth <= 0 && ty == "L" {
		ty = "U1"
	}
	toks := []string{"<", caseMix(g, ty)}
	n := g.pick(5)
	var body []string
	count := 0
	switch ty {
	case "L":
		ell := false
		for i := 0; i < n; i++ {
			switch {
			case vars && g.chance(0.15):
				body = append(body, sg.varName())
			case vars && i > 0 && !ell && g.chance(0.2):
				ell = true
				// mostly plain; now and then with a number (the parser numbers ellipses itself and warns when the
				// number written differs: a warning per message, whatever the messages before it did)
				switch g.pick(6) {
				case 0:
					body = append(body, fmt.Sprintf("...[%d]", g.pick(4)))
				default:
					body = append(body, "...")
				}
			default:
				body = append(body, sg.item(depth-1, vars)...)
			}
			count++
		}
	case "A":
		if vars && g.chance(0.3) {
			body = append(body, sg.varName())
			count = -1
		} else {
			for i := 0; i < n; i++ {
				if g.chance(0.6) {
					k := g.pick(6)
					body = append(body, sg.quoted(k))
					count += k
				} else {
					c := g.pick(128)
					body = append(body, intSpelling(g, int64(c), false, uint64(c)))
					count++
				}
			}
		}
	case "B":
		for i := 0; i < n; i++ {
			if vars && g.chance(0.2) {
				body = append(body, sg.varName())
			} else {
				c := g.pick(256)
				if g.chance(0.08) {
					c = 256 + g.pick(400) // refused, and refused alike however it is spelled
				}
				body = append(body, intSpelling(g, int64(c), false, uint64(c)))
			}
			count++
		}
	case "BOOLEAN":
		for i := 0; i < n; i++ {
			if vars && g.chance(0.2) {
				body = append(body, sg.varName())
			} else {
				body = append(body, caseMix(g, []string{"T", "F"}[g.pick(2)]))
			}
			count++
		}
	case "F4", "F8":
		for i := 0; i < n; i++ {
			if vars && g.chance(0.2) {
				body = append(body, sg.varName())
			} else if g.chance(0.06) {
				// an integer notation that a float item does not accept (an error in every letter case)
				c := g.pick(4096)
				body = append(body, intSpelling(g, int64(c), false, uint64(c)))
			} else {
				body = append(body, floatSpelling(g, ty == "F4"))
			}
			count++
		}
	default:
		w := int(ty[1] - '0')
		for i := 0; i < n; i++ {
			if vars && g.chance(0.2) {
				body = append(body, sg.varName())
			} else if ty[0] == 'I' {
				v := g.intVal(w)
				mag := uint64(v)
				if v < 0 {
					mag = uint64(-v)
				}
				body = append(body, intSpelling(g, v, v < 0, mag))
			} else {
				u := g.uintVal(w)
				body = append(body, intSpelling(g, 0, false, u))
			}
			count++
		}
	}
	// size declaration, mostly consistent
	if count >= 0 && g.chance(0.4) {
		switch g.pick(5) {
		case 0:
			toks = append(toks, fmt.Sprintf("[%d]", count))
		case 1:
			toks = append(toks, fmt.Sprintf("[%d..%d]", g.pick(count+1), count+g.pick(3)))
		case 2:
			toks = append(toks, fmt.Sprintf("[%d..]", g.pick(count+1)))
		case 3:
			toks = append(toks, fmt.Sprintf("[..%d]", count+g.pick(3)))
		default:
			toks = append(toks, fmt.Sprintf("[ %d .. %d ]", g.pick(4), g.pick(6))) // may be wrong: an error
		}
	} else if count < 0 && g.chance(0.5) {
		toks = append(toks, []string{"[3]", "[1..5]", "[2..]", "[..7]", "[0..0]"}[g.pick(5)])
	}
	toks = append(toks, body...)
	return append(toks, ">")
}

func floatSpelling(g *Gen, f4 bool) string {
	switch g.pick(7) {
	case 0:
		return []string{"0", "-0", "1", "-1", "0.5", "1e3", "1E-3", "-2.5e+2", ".5", "5.", "1.e2", "+3"}[g.pick(12)]
	case 1:
		if f4 {
			return strconv.FormatFloat(float64(math.Float32frombits(g.f32Bits())), 'g', -1, 32)
		}
		return strconv.FormatFloat(math.Float64frombits(g.f64Bits()), 'g', -1, 64)
	case 2:
		return strconv.FormatFloat(g.r.NormFloat64()*1000, 'f', g.pick(8), 64)
	case 3:
		return []string{"3.4028234663852886e38", "3.4028235677973366e38", "1e39", "1e-46", "1.7976931348623157e308", "1e309", "4.9e-324", "1e-400", "1.000000059604644775390625000001"}[g.pick(9)]
	case 4:
		return strconv.FormatFloat(g.r.Float64(), 'e', g.pick(17), 64)
	}
	return strconv.FormatFloat(float64(g.pick(100000))/float64(1+g.pick(1000)), 'g', -1, 64)
}

// message returns the tokens of one message; kinds of header tokens are mostly valid
func (sg *smlGen) message(vars bool) []string {
	g := sg.g
	sg.vars = 0
	f := g.pick(256)
	toks := []string{caseMix(g, fmt.Sprintf("S%dF%d", g.pick(128), f))}
	if g.chance(0.5) {
		if f%2 == 1 && g.chance(0.6) {
			toks = append(toks, caseMix(g, "W"))
		} else {
			toks = append(toks, caseMix(g, "[W]"))
		}
	}
	if g.chance(0.7) {
		toks = append(toks, caseMix(g, directions[g.pick(3)]))
	}
	if g.chance(0.6) {
		toks = append(toks, smlNames[g.pick(len(smlNames))])
	}
	if g.chance(0.85) {
		toks = append(toks, sg.item(2+g.pick(2), vars)...)
	}
	return append(toks, ".")
}

// ---------- layouts ----------

var commentTexts = []string{"", " comment", " see S2F2\rS9F9 W old text", "\r<A \"x\">", " a\rb\rc", " S1F1 W <A \"x\"> .", " caf\u00e9", " \u540d\u524d ", " ends in \u00e0", " tab\there", " \"quote", " // again", "\u2028sep", " nbsp\u00a0", " 0x85:\u0085", "\xff\xfe raw", "\x85", "\xa0"}

// selfDelimiting tokens can touch their neighbours
func selfDelimiting(t string) bool {
	return t == "<" || t == ">" || t == "." || strings.HasPrefix(t, "[") && t != "[W]" && !strings.EqualFold(t, "[w]") || strings.HasPrefix(t, `"`)
}

type layoutStyle struct {
	seps     []string
	comments float64
	tight    bool
}

var layoutStyles = []layoutStyle{
	{[]string{" "}, 0, false},
	{[]string{"\n"}, 0, false},
	{[]string{" ", "  ", "\t", "\n", "\r\n", " \n  ", "\n\n"}, 0, false},
	{[]string{" ", "\n", "\r\n"}, 0.3, false},
	{[]string{" ", "\t \t", "\n"}, 0.1, true},
}

func layout(g *Gen, toks []string, st layoutStyle) string {
	var sb strings.Builder
	header := true
	for i, t := range toks {
		if i > 0 {
			prev := toks[i-1]
			sep := st.seps[g.pick(len(st.seps))]
			// in the header a name swallows everything up to white space, and '.' / '<' end it only after white space
			touch := st.tight && !header && (selfDelimiting(prev) || selfDelimiting(t)) && !(prev == "." || t == ".") && g.chance(0.6)
			if st.comments > 0 && g.chance(st.comments) {
				sb.WriteString(" //" + commentTexts[g.pick(len(commentTexts))] + []string{"\n", "\r\n", " \n", "\t\r\n"}[g.pick(4)])
			} else if !touch {
				sb.WriteString(sep)
			}
		}
		if strings.HasPrefix(t, "[") && !strings.EqualFold(t, "[w]") && len(st.seps) > 1 && g.chance(0.5) {
			// a size declaration may hold white space of any kind around its parts
			ws := func() string { return []string{"", " ", "\t", "\n", "\r\n", " \r\n "}[g.pick(6)] }
			inner := strings.TrimSpace(t[1 : len(t)-1])
			parts := strings.SplitN(inner, "..", 2)
			t = "[" + ws() + strings.TrimSpace(parts[0])
			if len(parts) == 2 {
				t += ws() + ".." + ws() + strings.TrimSpace(parts[1])
			}
			t += ws() + "]"
		}
		sb.WriteString(t)
		if t == "<" {
			header = false
		}
		if t == "." {
			header = true
		}
	}
	if st.comments > 0 && g.chance(0.3) {
		sb.WriteString(" // trailing" + commentTexts[g.pick(len(commentTexts))])
	}
	return sb.String()
}

// ---------- C05: literals ----------

type c05Expect struct {
	item ast.ItemNode // nil: an error is expected
	note string
}

var c05Expected = map[string]c05Expect{}

func suiteC05(c *Ctx) {
	g := c.gen()
	emit := func(text string, exp ast.ItemNode, note string) {
		c05Expected[text] = c05Expect{exp, note}
		steps := []Step{smlStep(text), {Op: "PK", Ref: 0, Idx: 0}}
		c.emit(Case{"literal", steps, false})
	}
	mk := func(f func() ast.ItemNode) (it ast.ItemNode) {
		defer func() {
			if recover() != nil {
				it = nil
			}
		}()
		return f()
	}
	// integers: every type x boundary values x spellings
	for _, w := range []int{1, 2, 4, 8} {
		lo, hi := intRange(w)
		vals := []int64{lo, lo + 1, -1, 0, 1, hi - 1, hi, 7, -8, 100}
		for _, v := range vals {
			for rep := 0; rep < c.scale(3, 12); rep++ {
				mag := uint64(v)
				if v < 0 {
					mag = uint64(-v)
				}
				lit := intSpelling(g, v, v < 0, mag)
				v := v
				emit(fmt.Sprintf("S1F1 <%s %s> .", caseMix(g, fmt.Sprintf("I%d", w)), lit), mk(func() ast.ItemNode { return ast.NewIntNode(w, v) }), "in range")
			}
		}
		// just out of range
		if w < 8 {
			for _, v := range []int64{lo - 1, hi + 1, lo - 100, hi + 1000} {
				mag := uint64(v)
				if v < 0 {
					mag = uint64(-v)
				}
				emit(fmt.Sprintf("S1F1 <I%d %s> .", w, intSpelling(g, v, v < 0, mag)), nil, "out of range")
			}
		} else {
			emit("S1F1 <I8 9223372036854775808> .", nil, "out of range")
			emit("S1F1 <I8 -9223372036854775809> .", nil, "out of range")
			emit("S1F1 <I8 0x8000000000000000> .", nil, "out of range")
			emit("S1F1 <I8 99999999999999999999999> .", nil, "out of range")
		}
		umax := uintMax(w)
		for _, u := range []uint64{0, 1, umax - 1, umax, umax / 2, umax/2 + 1, 9} {
			for rep := 0; rep < c.scale(3, 12); rep++ {
				lit := intSpelling(g, 0, false, u)
				if strings.HasPrefix(lit, "+") {
					// a sign is not part of an unsigned literal: refused
					emit(fmt.Sprintf("S1F1 <U%d %s> .", w, lit), nil, "signed literal in unsigned item")
					continue
				}
				u := u
				emit(fmt.Sprintf("S1F1 <%s %s> .", caseMix(g, fmt.Sprintf("U%d", w)), lit), mk(func() ast.ItemNode { return ast.NewUintNode(w, u) }), "in range")
			}
		}
		if w < 8 {
			emit(fmt.Sprintf("S1F1 <U%d %d> .", w, umax+1), nil, "out of range")
		} else {
			emit("S1F1 <U8 18446744073709551616> .", nil, "out of range")
		}
		emit(fmt.Sprintf("S1F1 <U%d -1> .", w), nil, "negative in unsigned")
		emit(fmt.Sprintf("S1F1 <U%d -0> .", w), nil, "signed literal in unsigned item")
		// wrongly typed literals
		for _, bad := range []string{"1.5", "1e3", "T", `"1"`, "0x", "0b", "08", "0b2", "1.", ".5", "0o8", "0xg"} {
			emit(fmt.Sprintf("S1F1 <I%d %s> .", w, bad), nil, "wrong literal")
			emit(fmt.Sprintf("S1F1 <U%d 3 %s> .", w, bad), nil, "wrong literal")
		}
	}
	// several values in order, mixed spellings
	for i := 0; i < c.scale(300, 5000); i++ {
		w := []int{1, 2, 4, 8}[g.pick(4)]
		n := 1 + g.pick(6)
		var lits []string
		var vals []interface{}
		signed := g.chance(0.5)
		for k := 0; k < n; k++ {
			if signed {
				v := g.intVal(w)
				mag := uint64(v)
				if v < 0 {
					mag = uint64(-v)
				}
				l := intSpelling(g, v, v < 0, mag)
				lits = append(lits, l)
				vals = append(vals, v)
			} else {
				u := g.uintVal(w)
				l := intSpelling(g, 0, false, u)
				for strings.HasPrefix(l, "+") {
					l = l[1:]
				}
				lits = append(lits, l)
				vals = append(vals, u)
			}
		}
		ty := "U"
		if signed {
			ty = "I"
		}
		st := layoutStyles[g.pick(len(layoutStyles))]
		toks := append([]string{"S3F7", "<", fmt.Sprintf("%s%d", ty, w)}, lits...)
		toks = append(toks, ">", ".")
		emit(layout(g, toks, st), mk(func() ast.ItemNode {
			if signed {
				return ast.NewIntNode(w, vals...)
			}
			return ast.NewUintNode(w, vals...)
		}), "sequence")
	}
	// binary
	for v := 0; v < 256; v += 1 + g.pick(7) {
		v := v
		emit(fmt.Sprintf("S1F1 <B %s> .", intSpelling(g, int64(v), false, uint64(v))), mk(func() ast.ItemNode { return ast.NewBinaryNode(v) }), "binary")
	}
	for _, bad := range []string{"256", "-1", "1.5", "0x100", "1e2", "T", `"a"`, "0b100000000", "99999999999999999999"} {
		emit(fmt.Sprintf("S1F1 <B 1 %s> .", bad), nil, "binary refused")
	}
	// booleans
	for _, l := range []string{"T", "F", "t", "f"} {
		l := l
		emit(fmt.Sprintf("S1F1 <BOOLEAN %s> .", l), mk(func() ast.ItemNode { return ast.NewBooleanNode(strings.ToUpper(l) == "T") }), "boolean")
	}
	for _, bad := range []string{"1", "0", "true", `"T"`, "TRUE"} {
		// "true" and "TRUE" are variable names: accepted as variables, not as values
		if bad == "true" || bad == "TRUE" {
			continue
		}
		emit(fmt.Sprintf("S1F1 <BOOLEAN %s> .", bad), nil, "boolean refused")
	}
	// ASCII: every printable character in quotes, every code as a number, mixes
	for ch := 32; ch < 127; ch++ {
		if ch == '"' {
			continue
		}
		s := string([]byte{'a', byte(ch), 'z'})
		emit(fmt.Sprintf("S1F1 <A \"%s\"> .", s), mk(func() ast.ItemNode { return ast.NewASCIINode(s) }), "quoted")
	}
	for ch := 0; ch < 128; ch++ {
		ch := ch
		lit := intSpelling(g, int64(ch), false, uint64(ch))
		if strings.HasPrefix(lit, "+") {
			// a character code is an unsigned literal: a sign is refused (an error, not a substitution)
			emit(fmt.Sprintf("S1F1 <A %s> .", lit), nil, "signed character code")
			continue
		}
		emit(fmt.Sprintf("S1F1 <A %s> .", lit), mk(func() ast.ItemNode { return ast.NewASCIINode(string([]byte{byte(ch)})) }), "char code")
	}
	for _, bad := range []string{"128", "255", "256", "-1", "1.5", "T", "\"caf\u00e9\"", "\"a\nb\"", "\"\nabc\"", "\"abc", "0x80", "99999999999999999999", "+5", "\"\xff\"",
		"4294967296", "4294967361", "0x100000000", "0x100000041", "1099511627841", "9223372036854775873", "18446744073709551615", "0xffffffffffffff41", "0x10000000000000041"} {
		emit(fmt.Sprintf("S1F1 <A \"x\" %s> .", bad), nil, "ascii refused")
		emit(fmt.Sprintf("S1F1 <A %s> .", bad), nil, "ascii refused")
	}
	emit(`S1F1 <A "C:\path\new" 0x0A "tab\t"> .`, mk(func() ast.ItemNode { return ast.NewASCIINode("C:\\path\\new\ntab\\t") }), "backslashes are literal")
	emit(`S1F1 <A "a" "b" 0x22 "c"> .`, mk(func() ast.ItemNode { return ast.NewASCIINode("ab\"c") }), "concatenation")
	// literals written with nothing between them are still separate literals: there is no escape for a quote
	emit(`S1F1 <A "ab""cd"> .`, mk(func() ast.ItemNode { return ast.NewASCIINode("abcd") }), "adjacent quoted")
	emit(`S1F1 <A[4] "ab""cd"> .`, mk(func() ast.ItemNode { return ast.NewASCIINode("abcd") }), "adjacent quoted")
	emit(`S1F1 <A """"> .`, mk(func() ast.ItemNode { return ast.NewASCIINode("") }), "adjacent quoted")
	emit(`S1F1 <A "a"0x41"b"65> .`, mk(func() ast.ItemNode { return ast.NewASCIINode("aAbA") }), "adjacent quoted")
	emit(`S1F1 <A> .`, mk(func() ast.ItemNode { return ast.NewASCIINode("") }), "empty")
	emit(`S1F1 <A ""> .`, mk(func() ast.ItemNode { return ast.NewASCIINode("") }), "empty quoted")
	// floats: the value is what strconv.ParseFloat gives for the text, at the item's width
	for i := 0; i < c.scale(400, 8000); i++ {
		f4 := g.chance(0.5)
		lit := floatSpelling(g, f4)
		bits := 64
		w := 8
		if f4 {
			bits, w = 32, 4
		}
		v, err := strconv.ParseFloat(lit, bits)
		var exp ast.ItemNode
		if err == nil {
			exp = mk(func() ast.ItemNode { return ast.NewFloatNode(w, v) })
		}
		emit(fmt.Sprintf("S1F1 <F%d %s> .", w, lit), exp, "float")
	}
	// signed zeros and integer notation in float items
	for _, w := range []int{4, 8} {
		for _, lit := range []string{"-0", "-0.0", "+0", "-0e0", "0", "-0.", "-.0", "1", "-1", "16777217", "-16777217", "9007199254740993", "18446744073709551615", "9223372036854775807", "-9223372036854775808", "340282346638528859811704183484516925440", "340282356779733661637539395458142568448"} {
			bits := 32
			if w == 8 {
				bits = 64
			}
			v, err := strconv.ParseFloat(lit, bits)
			var exp ast.ItemNode
			if err == nil {
				w, v := w, v
				exp = mk(func() ast.ItemNode { return ast.NewFloatNode(w, v) })
			}
			emit(fmt.Sprintf("S1F1 <F%d %s> .", w, lit), exp, "float: zero sign / integer notation")
		}
	}
	// integers just above the midpoint of two adjacent float32 values that are both integers
	for i := 0; i < c.scale(200, 4000); i++ {
		e := 25 + g.pick(38)
		b := uint32(127+e)<<23 | uint32(g.r.Intn(1<<23))
		lo, _ := new(big.Float).SetFloat64(float64(math.Float32frombits(b))).Int(nil)
		hi, _ := new(big.Float).SetFloat64(float64(math.Float32frombits(b + 1))).Int(nil)
		mid := new(big.Int).Add(lo, hi)
		mid.Rsh(mid, 1)
		mid.Add(mid, big.NewInt(int64(g.pick(3))-1)) // just below, at, just above the midpoint
		lit := mid.String()
		if g.chance(0.3) {
			lit = "-" + lit
		}
		v, err := strconv.ParseFloat(lit, 32)
		var exp ast.ItemNode
		if err == nil {
			exp = mk(func() ast.ItemNode { return ast.NewFloatNode(4, v) })
		}
		emit(fmt.Sprintf("S1F1 <F4 %s> .", lit), exp, "float32 integer midpoint")
	}
	// literals just above the midpoint of two adjacent float32 values: rounding
	// once (to float32) and rounding twice (to float64, then to float32) differ
	for i := 0; i < c.scale(300, 5000); i++ {
		b := g.f32Bits() &^ 0x80000000
		if b >= 0x7f7fffff || b < 0x00800000 {
			continue
		}
		lo := float64(math.Float32frombits(b))
		hi := float64(math.Float32frombits(b + 1))
		mid := new(big.Float).SetPrec(200).SetFloat64(lo)
		mid.Add(mid, new(big.Float).SetPrec(200).SetFloat64(hi))
		mid.Quo(mid, big.NewFloat(2))
		lit := mid.Text('f', 120)
		lit = strings.TrimRight(lit, "0") + []string{"1", "0000000001", ""}[g.pick(3)]
		if g.chance(0.3) {
			lit = "-" + lit
		}
		v, err := strconv.ParseFloat(lit, 32)
		var exp ast.ItemNode
		if err == nil {
			exp = mk(func() ast.ItemNode { return ast.NewFloatNode(4, v) })
		}
		emit(fmt.Sprintf("S1F1 <F4 %s> .", lit), exp, "float32 midpoint")
	}
	// the same literal in items of both widths, in either order, in one text
	for i := 0; i < c.scale(150, 3000); i++ {
		lit := floatSpelling(g, false)
		v4, e4 := strconv.ParseFloat(lit, 32)
		v8, e8 := strconv.ParseFloat(lit, 64)
		if e4 != nil || e8 != nil {
			continue
		}
		first4 := g.chance(0.5)
		var text string
		var exp ast.ItemNode
		if first4 {
			text = fmt.Sprintf("S1F1 <L <F4 %s> <F8 %s %s>> .", lit, lit, lit)
			exp = mk(func() ast.ItemNode { return ast.NewListNode(ast.NewFloatNode(4, v4), ast.NewFloatNode(8, v8, v8)) })
		} else {
			text = fmt.Sprintf("S1F1 <L <F8 %s> <F4 %s> <F8 %s>> .", lit, lit, lit)
			exp = mk(func() ast.ItemNode {
				return ast.NewListNode(ast.NewFloatNode(8, v8), ast.NewFloatNode(4, v4), ast.NewFloatNode(8, v8))
			})
		}
		emit(text, exp, "same literal at both widths")
	}
	for _, bad := range []string{"T", `"1.0"`, "0x10", "1e", "1e+", "--1", "1e3e3", "0b1", "nan", "inf"} {
		if bad == "nan" || bad == "inf" {
			continue // variable names
		}
		emit(fmt.Sprintf("S1F1 <F8 %s> .", bad), nil, "float refused")
		emit(fmt.Sprintf("S1F1 <F4 1.5 %s> .", bad), nil, "float refused")
	}
}

func monitorC05(c *Ctx, id string, cs Case, e *Exec, final []string) {
	text := string(cs.Steps[0].S)
	exp, ok := c05Expected[text]
	if !ok {
		return
	}
	c.stats["monitor:literal-texts"]++
	res, ok := e.Pool[0].(smlRes)
	if !ok {
		c.hit(id, cs, "parse-panicked", short(text))
		return
	}
	if exp.item == nil {
		c.stats["monitor:expect-error"]++
		if len(res.errs) == 0 || len(res.msgs) != 0 {
			got := ""
			if len(res.msgs) > 0 {
				got = res.msgs[0].String()
			}
			c.hit(id, cs, "silent-substitution", fmt.Sprintf("%s (%s): no error; parsed as %q", text, exp.note, got))
		}
		return
	}
	c.stats["monitor:expect-value"]++
	if len(res.errs) != 0 || len(res.msgs) != 1 {
		c.hit(id, cs, "valid-literal-refused", fmt.Sprintf("%s (%s): errors %v", text, exp.note, res.errs))
		return
	}
	m := res.msgs[0].SetWaitBit(false).SetSessionIDAndSystemBytes(1, []byte{0, 0, 0, 1})
	want := ast.NewHSMSDataMessage("", res.msgs[0].StreamCode(), res.msgs[0].FunctionCode(), 0, "H<->E", exp.item, 1, []byte{0, 0, 0, 1})
	if hex.EncodeToString(m.ToBytes()) != hex.EncodeToString(want.ToBytes()) || itemText(m.String()) != itemText(want.String()) {
		c.hit(id, cs, "wrong-value", fmt.Sprintf("%s (%s): parsed %q, literals denote %q", text, exp.note, itemText(m.String()), itemText(want.String())))
	}
}

// ---------- C15: declared sizes ----------

type c15Expect struct {
	sizeErr bool
	line    int
	col     int
}

var c15Expected = map[string]c15Expect{}

func suiteC15(c *Ctx) {
	g := c.gen()
	elems := map[string]func(n int) string{
		"L":       func(n int) string { return strings.Repeat("<U1 1> ", n) },
		"A":       func(n int) string { return `"` + strings.Repeat("x", n) + `"` },
		"B":       func(n int) string { return strings.Repeat("7 ", n) },
		"BOOLEAN": func(n int) string { return strings.Repeat("T ", n) },
		"F4":      func(n int) string { return strings.Repeat("1.5 ", n) },
		"F8":      func(n int) string { return strings.Repeat("-2 ", n) },
		"I1":      func(n int) string { return strings.Repeat("-1 ", n) },
		"I2":      func(n int) string { return strings.Repeat("300 ", n) },
		"I4":      func(n int) string { return strings.Repeat("0 ", n) },
		"I8":      func(n int) string { return strings.Repeat("9 ", n) },
		"U1":      func(n int) string { return strings.Repeat("1 ", n) },
		"U2":      func(n int) string { return strings.Repeat("2 ", n) },
		"U4":      func(n int) string { return strings.Repeat("4 ", n) },
		"U8":      func(n int) string { return strings.Repeat("8 ", n) },
	}
	max := 5
	var steps []Step
	flush := func() {
		if len(steps) > 0 {
			c.emit(Case{"size-grid", steps, false})
			steps = nil
		}
	}
	add := func(text string, sizeErr bool, col int) {
		c15Expected[text] = c15Expect{sizeErr, 1, col}
		steps = append(steps, smlStep(text))
		if len(steps) >= 100 {
			flush()
		}
	}
	for _, ty := range smlTypes {
		for lo := 0; lo <= max; lo++ {
			for hi := 0; hi <= max; hi++ {
				for n := 0; n <= max; n++ {
					pre := "S1F1 <" + ty
					col := len(pre) + 1
					add(fmt.Sprintf("%s[%d..%d] %s> .", pre, lo, hi, elems[ty](n)), !(lo <= n && n <= hi), col)
					if hi == 0 {
						add(fmt.Sprintf("%s[%d] %s> .", pre, lo, elems[ty](n)), n != lo, col)
						add(fmt.Sprintf("%s[%d..] %s> .", pre, lo, elems[ty](n)), n < lo, col)
						add(fmt.Sprintf("%s[..%d] %s> .", pre, lo, elems[ty](n)), n > lo, col)
						add(fmt.Sprintf("%s [ %d ..\t%d ] %s> .", pre, lo, lo+1, elems[ty](n)), !(lo <= n && n <= lo+1), col+1)
					}
				}
			}
		}
	}
	flush()
	// white space of every kind inside the brackets (a declaration may be spread over lines, also CRLF ones)
	for _, ty := range []string{"A", "U2", "L", "B", "F8"} {
		pre := "S1F1 <" + ty
		col := len(pre) + 1
		for _, ws := range []string{" ", "\t", "\n", "\r\n", "\r", " \r\n\t"} {
			for lo := 0; lo <= 3; lo++ {
				for n := 0; n <= 4; n++ {
					add(fmt.Sprintf("%s[%s%d%s] %s> .", pre, ws, lo, ws, elems[ty](n)), n != lo, col)
					add(fmt.Sprintf("%s[%d%s..%s%d] %s> .", pre, lo, ws, ws, lo+1, elems[ty](n)), !(lo <= n && n <= lo+1), col)
					add(fmt.Sprintf("%s[%d..%s%d%s] %s> .", pre, lo, ws, lo+1, ws, elems[ty](n)), !(lo <= n && n <= lo+1), col)
					add(fmt.Sprintf("%s[%s%d%s..] %s> .", pre, ws, lo, ws, elems[ty](n)), n < lo, col)
					add(fmt.Sprintf("%s[..%s%d%s] %s> .", pre, ws, lo, ws, elems[ty](n)), n > lo, col)
				}
			}
		}
	}
	flush()
	// a wrong count is reported at its own declaration also when something inside the item was reported before
	for _, inner := range []string{"<A[2] \"x\">", "<U1[3] 1>", "<U1 300>", "<B 0x1ff>", "<L[2] <A \"y\">>", "<I1 1.5>", "<A 200>"} {
		for _, ty := range []string{"L"} {
			pre := "S1F1 <" + ty
			add(fmt.Sprintf("%s[3] %s> .", pre, inner), true, len(pre)+1)
		}
	}
	for _, body := range []string{"300 1", "-1", "256 257 258 259"} {
		pre := "S1F1 <U1"
		add(fmt.Sprintf("%s[3] %s> .", pre, body), len(strings.Fields(body)) != 3, len(pre)+1)
	}
	flush()
	// bounds are decimal numbers: leading zeros do not make them octal
	for _, ty := range []string{"A", "U1", "L", "B"} {
		pre := "S1F1 <" + ty
		col := len(pre) + 1
		for n := 0; n <= 11; n++ {
			add(fmt.Sprintf("%s[010] %s> .", pre, elems[ty](n)), n != 10, col)
			add(fmt.Sprintf("%s[08] %s> .", pre, elems[ty](n)), n != 8, col)
			add(fmt.Sprintf("%s[..09] %s> .", pre, elems[ty](n)), n > 9, col)
			add(fmt.Sprintf("%s[007..010] %s> .", pre, elems[ty](n)), !(7 <= n && n <= 10), col)
			add(fmt.Sprintf("%s[09..] %s> .", pre, elems[ty](n)), n < 9, col)
		}
	}
	flush()
	// an element that is a variable still counts
	for _, ty := range []string{"U1", "I2", "B", "BOOLEAN", "F4", "L"} {
		pre := "S1F1 <" + ty
		col := len(pre) + 1
		for lo := 0; lo <= 3; lo++ {
			for n := 0; n <= 3; n++ {
				body := elems[ty](n) + " vx"
				if ty == "L" {
					body = elems[ty](n) + " <A vx> <U1 vy>"
					add(fmt.Sprintf("%s[%d] %s> .", pre, lo, body), n+2 != lo, col)
					continue
				}
				add(fmt.Sprintf("%s[%d] %s> .", pre, lo, body), n+1 != lo, col)
				add(fmt.Sprintf("%s[..%d] %s vz> .", pre, lo, body), n+2 > lo, col)
			}
		}
	}
	flush()
	// huge and overflowing bounds
	for _, ty := range []string{"A", "U1", "L"} {
		for _, b := range []string{"99999999999999999999", "9223372036854775807", "9223372036854775808", "18446744073709551616", "4294967296", "16777216"} {
			pre := "S1F1 <" + ty
			col := len(pre) + 1
			add(fmt.Sprintf("%s[%s] %s> .", pre, b, elems[ty](2)), true, col)
			add(fmt.Sprintf("%s[%s..] %s> .", pre, b, elems[ty](2)), true, col)
			add(fmt.Sprintf("%s[..%s] %s> .", pre, b, elems[ty](2)), false, col)
			add(fmt.Sprintf("%s[1..%s] %s> .", pre, b, elems[ty](2)), false, col)
			add(fmt.Sprintf("%s[3..%s] %s> .", pre, b, elems[ty](2)), true, col)
		}
	}
	flush()
	// ASCII variables: bounds kept, printed back, enforced on fill
	for lo := 0; lo <= 4; lo++ {
		for hi := 0; hi <= 4; hi++ {
			for _, form := range []string{"[%d..%d]", "[%d]", "[%d..]", "[..%d]", ""} {
				var decl string
				switch strings.Count(form, "%d") {
				case 2:
					decl = fmt.Sprintf(form, lo, hi)
				case 1:
					if hi != 0 {
						continue
					}
					decl = fmt.Sprintf(form, lo)
				default:
					if lo != 0 || hi != 0 {
						continue
					}
				}
				text := fmt.Sprintf("S1F1 <A%s v> .", decl)
				st := []Step{smlStep(text), {Op: "PK", Ref: 0, Idx: 0}}
				for n := 0; n <= 6; n++ {
					st = append(st, Step{Op: "FM", Ref: 1, Map: []KV{{[]byte("v"), Arg{T: 's', S: []byte(strings.Repeat("y", n))}}}})
				}
				c.emit(Case{"ascii-variable", st, false})
			}
		}
	}
	// an ASCII variable repeated by an ellipsis keeps its bounds in every copy
	for lo := 0; lo <= 3; lo++ {
		for _, hi := range []int{-1, lo, lo + 2} {
			decl := fmt.Sprintf("[%d..%d]", lo, hi)
			if hi == -1 {
				decl = fmt.Sprintf("[%d..]", lo)
			}
			text := fmt.Sprintf("S1F1 <L <L <A%s v> <U1 w>> ...> .", decl)
			st := []Step{smlStep(text), {Op: "PK", Ref: 0, Idx: 0}}
			ex0 := &Exec{}
			ex0.Run(st)
			m0, ok0 := ex0.msg(1)
			if !ok0 {
				continue
			}
			ell := ""
			for _, v := range m0.Variables() {
				if strings.HasPrefix(v, "...") {
					ell = v // the parser numbers the ellipsis: "...[0]"
				}
			}
			st = append(st, Step{Op: "FM", Ref: 1, Map: []KV{{[]byte(ell), Arg{T: 'i', IK: KInt, I: 2}}}})
			ex := &Exec{}
			ex.Run(st)
			m, ok := ex.msg(2)
			if !ok || len(m.Variables()) < 4 {
				continue
			}
			for _, v := range m.Variables() {
				if !strings.HasPrefix(v, "v") {
					continue
				}
				for n := 0; n <= 6; n++ {
					st = append(st, Step{Op: "FM", Ref: 2, Map: []KV{{[]byte(v), Arg{T: 's', S: []byte(strings.Repeat("y", n))}}}})
				}
			}
			c15Copies[text] = [2]int{lo, hi}
			c.emit(Case{"ascii-variable-copies", st, false})
		}
	}
	_ = g
}

var c15Copies = map[string][2]int{}

func monitorC15(c *Ctx, id string, cs Case, e *Exec, final []string) {
	if cs.Label == "ascii-variable-copies" {
		b := c15Copies[string(cs.Steps[0].S)]
		for i := 3; i < len(cs.Steps); i++ {
			n := len(cs.Steps[i].Map[0].V.S)
			_, built := e.Pool[i].(*ast.DataMessage)
			want := n >= b[0] && (b[1] == -1 || n <= b[1])
			c.stats["monitor:copy-fills"]++
			if built != want {
				c.hit(id, cs, "copy-bound", fmt.Sprintf("a copy of an ASCII variable declared [%d..%d] filled with %d characters: accepted=%v", b[0], b[1], n, built))
				return
			}
		}
		return
	}
	if cs.Label == "ascii-variable" {
		text := string(cs.Steps[0].S)
		// recompute the bounds from the declaration independently
		lo, hi := 0, -1
		if i := strings.Index(text, "["); i >= 0 {
			d := text[i+1 : strings.Index(text, "]")]
			if j := strings.Index(d, ".."); j >= 0 {
				if d[:j] != "" {
					lo, _ = strconv.Atoi(d[:j])
				}
				if d[j+2:] != "" {
					hi, _ = strconv.Atoi(d[j+2:])
				}
			} else {
				lo, _ = strconv.Atoi(d)
				hi = lo
			}
		}
		valid := hi == -1 || lo <= hi
		c.stats["monitor:ascii-variables"]++
		m, ok := e.Pool[1].(*ast.DataMessage)
		if !ok {
			if valid {
				c.hit(id, cs, "variable-refused", text)
			}
			return
		}
		if !valid {
			c.hit(id, cs, "invalid-bounds-accepted", text)
			return
		}
		// printed back
		again, errs, _ := sml.Parse(m.String())
		if len(errs) != 0 || len(again) != 1 || again[0].String() != m.String() {
			c.hit(id, cs, "bounds-not-printed-back", fmt.Sprintf("%s prints %q", text, m.String()))
		}
		for n := 0; n <= 6; n++ {
			_, refused := e.Pool[2+n].(panicked)
			want := n >= lo && (hi == -1 || n <= hi)
			if refused == want {
				c.hit(id, cs, "fill-bound", fmt.Sprintf("%s: string of length %d accepted=%v, expected %v", text, n, !refused, want))
			}
		}
		return
	}
	for i, s := range cs.Steps {
		text := string(s.S)
		exp, ok := c15Expected[text]
		if !ok {
			continue
		}
		c.stats["monitor:size-texts"]++
		res, ok := e.Pool[i].(smlRes)
		if !ok {
			c.hit(id, cs, "parse-panicked", text)
			continue
		}
		got := false
		at := ""
		for _, er := range res.errs {
			if strings.Contains(er, "data item size overflow") {
				got = true
				at = er
			}
		}
		if got != exp.sizeErr {
			c.hit(id, Case{cs.Label, []Step{s}, false}, "size-iff", fmt.Sprintf("%s: size error reported=%v, expected %v (%v)", text, got, exp.sizeErr, res.errs))
			continue
		}
		if got && !strings.HasPrefix(at, fmt.Sprintf("Ln %d, Col %d:", exp.line, exp.col)) {
			c.hit(id, Case{cs.Label, []Step{s}, false}, "size-position", fmt.Sprintf("%s: %s, expected at the declaration Ln %d, Col %d", text, at, exp.line, exp.col))
		}
		if !exp.sizeErr && (len(res.errs) != 0 || len(res.msgs) != 1) {
			c.hit(id, Case{cs.Label, []Step{s}, false}, "size-accept", fmt.Sprintf("%s: %v", text, res.errs))
		}
	}
}

// ---------- C06: totality ----------

var soupVocab = []string{"S1F1", "s99f255", "S128F1", "S1F256", "S1F2", "W", "[W]", "[w]", "H->E", "h<-e", "H<->E", "Name", ".", "<", ">", "L", "A", "B", "BOOLEAN", "F4", "F8", "I1", "I8", "U1", "U4",
	"[2]", "[1..3]", "[..2]", "[5..]", "[ 1 .. 2 ]", "[", "[]", "[..]", "[a]", "[1..2", "[99999999999999999999]", "[300000000]", "...", "...[1]", "...[", "x", "x[1]", "x[", "T", "F", "t",
	"1", "-1", "+1", "0x1F", "0b101", "0o7", "017", "08", "1.5", "1e5", "1e", ".5", "5.", "1_0", "0x", "12abc", "1é", "999999999999999999999999999999", "1e400", "-1e400",
	`"str"`, `""`, `"a b"`, `"unclosed`, "\"line\nbreak\"", `"é"`, `"\x"`, "//c\n", "// c", "/", "//", "\n", "\r\n", "\t", " ", "\f", "\v", "\u00a0", "\u0085", "\u2028", "\u3000", "\ufeff", "\xff", "\xc3", "\x00", "é", "名", "@", "#", "{", "}", "\\", "'", ",", ";", "=", "(", ")"}

func (g *Gen) soup(n int) string {
	var sb strings.Builder
	for i := 0; i < n; i++ {
		sb.WriteString(soupVocab[g.pick(len(soupVocab))])
		if g.chance(0.7) {
			sb.WriteString([]string{" ", "\n", "", "\t", "  "}[g.pick(5)])
		}
	}
	return sb.String()
}

func (g *Gen) mutateText(s string) string {
	b := []byte(s)
	if len(b) == 0 {
		return g.soup(3)
	}
	switch g.pick(6) {
	case 0:
		i := g.pick(len(b))
		b = append(b[:i], b[i+1:]...)
	case 1:
		i := g.pick(len(b) + 1)
		ins := soupVocab[g.pick(len(soupVocab))]
		b = append(b[:i], append([]byte(ins), b[i:]...)...)
	case 2:
		b[g.pick(len(b))] = byte(g.pick(256))
	case 3:
		b = b[:g.pick(len(b)+1)]
	case 4:
		i, j := g.pick(len(b)), g.pick(len(b))
		b[i], b[j] = b[j], b[i]
	default:
		i := g.pick(len(b))
		b = append(b[:i], append([]byte(" "), b[i:]...)...)
	}
	return string(b)
}

// what must hold for a text made of k valid messages with one fragment between two of them
type c06Expect struct {
	k        int
	gapOnly  bool // the fragment is white space / comments only
	fragment string
}

var c06Expected = map[string]c06Expect{}

var betweenJunk = []string{"\xff", "\xfe\xff", "\xef\xbf\xbd", "\xc3", "@", "x", "1", "<", ">", "\"s\"", "W", "H->E", "\x00", "\u00a0", "\u2028", "\f", "\v", "...", "[2]", "é"}
var betweenGaps = []string{"", " ", "\n", "\r\n", "\t \n", "// c\n", " // \xff\xfe raw\n", "//\n//\n", "\n\n"}

func suiteC06(c *Ctx) {
	g := c.gen()
	for i := 0; i < c.scale(600, 30000); i++ {
		k := 2 + g.pick(3)
		var parts []string
		for j := 0; j < k; j++ {
			for {
				sg := &smlGen{g: g}
				t := layout(g, sg.message(g.chance(0.4)), layoutStyles[g.pick(3)])
				if ms, errs, _ := sml.Parse(t); len(errs) == 0 && len(ms) == 1 {
					parts = append(parts, t)
					break
				}
			}
		}
		at := 1 + g.pick(k-1)
		gap := g.chance(0.4)
		frag := betweenJunk[g.pick(len(betweenJunk))]
		if gap {
			frag = betweenGaps[g.pick(len(betweenGaps))]
		} else {
			frag = []string{" ", "\n", ""}[g.pick(3)] + frag + []string{" ", "\n"}[g.pick(2)]
		}
		text := ""
		for j, p := range parts {
			if j == at {
				text += frag
			} else if j > 0 {
				text += "\n"
			}
			text += p
		}
		c06Expected[text] = c06Expect{k, gap, frag}
		c.emit(Case{"between", []Step{smlStep(text)}, false})
	}
	// every Unicode space, and a few look-alikes, at every place of an otherwise complete message
	for _, r := range []rune{'\t', '\n', '\v', '\f', '\r', ' ', 0x85, 0xA0, 0x1680, 0x2000, 0x2001, 0x2005, 0x200A, 0x2028, 0x2029, 0x202F, 0x205F, 0x3000,
		0x200B, 0x2060, 0xFEFF, 0x180E, 0x1C, 0x1F, 0x7F, 0xAD} {
		sp := string(r)
		for _, tpl := range []string{"S1F1 H->E lot%sid .", "S1F1 H->E lot%s .", "S1F1 H->E %slot .", "S1F1 W lot%sid <A \"x\"> .", "S1F1 lot%s<U1 1> .",
			"S1F1%sW H->E n .", "S1F1 H->E n <L%s<A \"x\">%s> .", "S1F1 H->E a%sb%sc .\nS2F2 H<-E x%s ."} {
			c.emit(Case{"spaces-in-header", []Step{smlStep(strings.ReplaceAll(tpl, "%s", sp))}, false})
		}
		c.emit(Case{"spaces-in-header", []Step{smlStep("S1F1 H->E lot" + sp[:1] + " .")}, false}) // cut inside the rune
	}
	// stream and function codes at and beyond their ranges, with every wait bit and direction
	for _, sf := range []string{"S0F0", "S127F255", "S128F1", "S1F256", "S1F257", "S128F257", "S999F999", "S1F2", "S0F1", "S99999999999999999999F1", "S1F99999999999999999999", "S00F01", "s1f1"} {
		for _, w := range []string{"", " W", " [W]", " w"} {
			for _, rest := range []string{" .", " H->E .", " H<-E name .", " <A \"x\"> .", " name <L> .", " h<->e <U1 1> ."} {
				c.emit(Case{"header-ranges", []Step{smlStep(sf + w + rest)}, false})
			}
		}
	}
	// items the constructors refuse (the parser recovers from their panic): the refusal is an error of the text,
	// never only a warning, and nothing of the text is returned
	for _, bad := range []string{"<L a ... ...>", "<L <A \"x\"> ... b ...>", "<A[5..2] x>", "<A[3..1] \"abc\">", "<L x x>", "<L x <U1 x>>",
		"<U1 a a>", "<L a ...[0] ...[1]>", "<A[2..1] n>", "<L <L p ... ...> q>", "<B 0b1 v v>", "<BOOLEAN T t t>"} {
		for _, ctx := range []string{"S1F1 %s .", "S1F1 W H->E n %s .\nS1F2 <A \"tail\"> .", "S2F2 <A \"head\"> .\nS1F1 %s .\nS3F3 <U1 1> .", "S1F1 <L <A \"z\"> %s> ."} {
			c.emit(Case{"refused-by-constructor", []Step{smlStep(fmt.Sprintf(ctx, bad))}, false})
		}
	}
	n := c.scale(3000, 60000)
	for i := 0; i < n; i++ {
		var text string
		switch g.pick(4) {
		case 0:
			text = g.soup(1 + g.pick(25))
		case 1:
			sg := &smlGen{g: g}
			text = layout(g, sg.message(g.chance(0.5)), layoutStyles[g.pick(len(layoutStyles))])
			for k := g.pick(3); k > 0; k-- {
				text = g.mutateText(text)
			}
		case 2:
			sg := &smlGen{g: g}
			var toks []string
			for k := 0; k < 1+g.pick(3); k++ {
				toks = append(toks, sg.message(g.chance(0.5))...)
			}
			text = layout(g, toks, layoutStyles[g.pick(len(layoutStyles))])
			if g.chance(0.5) {
				text = g.mutateText(text)
			}
		default:
			// nesting
			d := 1 + g.pick(c.scale(60, 400))
			text = "S1F1 " + strings.Repeat("<L ", d) + strings.Repeat(">", d-g.pick(2)) + " ."
		}
		c.emit(Case{"soup", []Step{smlStep(text)}, false})
	}
}

func monitorC06(c *Ctx, id string, cs Case, e *Exec, final []string) {
	text := string(cs.Steps[0].S)
	c.stats["monitor:texts"]++
	if _, isHung := e.Pool[0].(hung); isHung {
		c.hit(id, cs, "parse-does-not-return", fmt.Sprintf("%q: no result after 20 s", short(text)))
		return
	}
	res, ok := e.Pool[0].(smlRes)
	if !ok {
		c.hit(id, cs, "panic-escaped", fmt.Sprintf("%q: %v", short(text), e.Pool[0]))
		return
	}
	if exp, ok := c06Expected[text]; ok {
		c.stats["monitor:between"]++
		if exp.gapOnly && (len(res.errs) != 0 || len(res.msgs) != exp.k) {
			c.hit(id, cs, "messages-lost", fmt.Sprintf("%d valid messages separated by %q: %d returned, errors %v", exp.k, exp.fragment, len(res.msgs), res.errs))
		}
		if !exp.gapOnly && len(res.errs) == 0 && len(res.msgs) != exp.k {
			// a stray fragment between two messages: an error, or at least nothing lost
			c.hit(id, cs, "messages-lost-silently", fmt.Sprintf("%d valid messages with %q between two of them: no error, %d messages returned", exp.k, exp.fragment, len(res.msgs)))
		}
	}
	if len(res.errs) > 0 && len(res.msgs) > 0 {
		c.hit(id, cs, "errors-and-messages", fmt.Sprintf("%q: %d messages with errors %v", short(text), len(res.msgs), res.errs))
	}
	if len(res.errs) == 0 {
		c.stats["monitor:accepted"]++
		// every message in the input is returned: count the terminators the lexer sees
		n := 0
		for _, t := range sml.VerifLex(text) {
			if t.Type == 3 {
				n++
			}
		}
		if n != len(res.msgs) {
			c.hit(id, cs, "message-count", fmt.Sprintf("%q: %d message terminators, %d messages", short(text), n, len(res.msgs)))
		}
	}
	lines := 1 + strings.Count(text, "\n")
	for _, d := range append(append([]string{}, res.errs...), res.warns...) {
		m := diagRe.FindStringSubmatch(strings.ReplaceAll(d, "\n", " "))
		if m == nil {
			c.hit(id, cs, "diagnostic-format", fmt.Sprintf("%q: %q", short(text), d))
			continue
		}
		ln, _ := strconv.Atoi(m[1])
		col, _ := strconv.Atoi(m[2])
		if ln < 1 || ln > lines || col < 1 {
			c.hit(id, cs, "diagnostic-position", fmt.Sprintf("%q: %q with %d lines", short(text), d, lines))
			continue
		}
		lineText := strings.Split(text, "\n")[ln-1]
		if col > len([]rune(lineText))+1 {
			c.hit(id, cs, "diagnostic-position", fmt.Sprintf("%q: %q beyond the end of line %d", short(text), d, ln))
		}
	}
}

// hostile texts for the worker (C06): what a subprocess must survive
func hostileSml(r *rand.Rand, thorough bool, emit func(kind, text string)) {
	g := newGen(r, thorough, map[string]int{})
	for _, n := range []string{"1000000", "50000000", "300000000", "4294967296", "300000000000", "9223372036854775807", "99999999999999999999"} {
		emit("huge-size", fmt.Sprintf("S1F1 <L <A x> <A[%s] x>> .", n))
		emit("huge-size", fmt.Sprintf("S1F1 <L <A x> <A[%s..] x> <A[..%s] x> <A[%s..%s] x>> .", n, n, n, n))
		emit("huge-size", fmt.Sprintf("S1F1 <A[%s] v> .", n))
		emit("huge-size", fmt.Sprintf("S1F1 <L[%s] <U1[%s] 1>> .", n, n))
		emit("huge-number", fmt.Sprintf("S1F1 <U8 %s %s0000000000> <F4 1e%s> .", n, n, n))
		emit("huge-size", "S1F1 <L <A x> "+strings.Repeat(fmt.Sprintf("<A[%s] x> ", n), 50)+"> .")
	}
	for _, d := range []int{100, 1000, 2000} {
		emit("deep", "S1F1 "+strings.Repeat("<L ", d)+strings.Repeat(">", d)+" .")
		emit("deep-unclosed", "S1F1 "+strings.Repeat("<L ", d))
		emit("deep-vars", "S1F1 "+strings.Repeat("<L v ", d)+strings.Repeat(">", d)+" .")
	}
	emit("long-line", "S1F1 <A \""+strings.Repeat("x", 60000)+"\"> .")
	emit("long-number", "S1F1 <U1 "+strings.Repeat("9", 30000)+"> .")
	emit("many-tokens", "S1F1 <U1 "+strings.Repeat("1 ", 8000)+"> .")
	emit("many-messages", strings.Repeat("S1F1 W H->E n <L <U1 1> <A \"x\">> .\n", 600))
	emit("many-comments", strings.Repeat("// c\n", 3000)+"S1F1 .")
	emit("many-errors", strings.Repeat("S1F1 <U1 999> .\n", 500))
	n := 3000
	if thorough {
		n = 200000
	}
	for i := 0; i < n; i++ {
		switch g.pick(3) {
		case 0:
			emit("soup", g.soup(1+g.pick(60)))
		case 1:
			sg := &smlGen{g: g}
			t := layout(g, sg.message(true), layoutStyles[g.pick(len(layoutStyles))])
			for k := g.pick(4); k > 0; k-- {
				t = g.mutateText(t)
			}
			emit("mutated", t)
		default:
			b := make([]byte, g.pick(80))
			r.Read(b)
			emit("random-bytes", "S1F1 "+string(b))
		}
	}
}

func cmdHostileSml(args []string) {
	fs := flag.NewFlagSet("hostile-sml", flag.ExitOnError)
	seed := fs.Int64("seed", 1, "seed")
	tier := fs.String("tier", "quick", "tier")
	fs.Parse(args)
	w := bufio.NewWriterSize(os.Stdout, 1<<20)
	defer w.Flush()
	r := rand.New(rand.NewSource(*seed*7919 + 5))
	hostileSml(r, *tier == "thorough", func(kind, text string) {
		if len(text) == 0 {
			fmt.Fprintf(w, "%s -\n", kind)
			return
		}
		fmt.Fprintf(w, "%s %s\n", kind, hex.EncodeToString([]byte(text)))
	})
}

// ---------- C08: layouts ----------

func suiteC08(c *Ctx) {
	g := c.gen()
	n := c.scale(1500, 100000)
	// literals that are refused are refused alike in either letter case and any layout
	for _, ty := range []string{"B", "U1", "I1", "U8", "I8", "F4", "BOOLEAN"} {
		for _, lit := range []string{"0b100000000", "0b", "0b1.1", "0b1e2", "0b2", "0b11111111", "0x100", "0xff", "0x", "0xg", "0o400", "0o377", "0o8", "0o",
			"256", "1e3", "1e400", "0x1p4", "0b1 0b100000001", "0xffffffffffffffffff", "-0x81", "-0b10000001", "t", "f"} {
			toks := []string{"s1f1", "<", ty}
			toks = append(toks, strings.Fields(lit)...)
			toks = append(toks, ">", ".")
			lo := make([]string, len(toks))
			up := make([]string, len(toks))
			for j, t := range toks {
				lo[j], up[j] = strings.ToLower(t), strings.ToUpper(t)
			}
			a := layout(g, lo, layoutStyles[0])
			b := layout(g, lo, layoutStyles[1+g.pick(len(layoutStyles)-1)])
			cc := layout(g, up, layoutStyles[0])
			c.emit(Case{"refused-literals", []Step{smlStep(a), smlStep(b), smlStep(cc), lexStep(a), lexStep(b)}, false})
		}
	}
	// a comment between the end of an item and what follows it: the same diagnostics as without the comment,
	// whatever follows (the terminator, or something that is not one)
	for _, junk := range []string{"", "...", `"a b"`, "5x", ">", "h->e", "W", "0x1F", "<U1 1>", "S2F2"} {
		for _, head := range []string{"S1F1 <A \"x\">", "S1F1 W H->E n <L <U1 1> <L>>", "S9F9 <L>"} {
			a := head + " " + junk + " ."
			b := head + " // note\n" + junk + " // end\n."
			cc := strings.ToUpper(head[:4]) + head[4:] + "\t" + junk + "\r\n."
			c.emit(Case{"layouts", []Step{smlStep(a), smlStep(b), smlStep(cc), lexStep(a), lexStep(b)}, false})
		}
	}
	for i := 0; i < n; i++ {
		sg := &smlGen{g: g}
		var toks []string
		for k := 0; k < 1+g.pick(2); k++ {
			toks = append(toks, sg.message(g.chance(0.5))...)
		}
		// sometimes an invalid sequence: diagnostics must move with the tokens
		if g.chance(0.35) {
			switch g.pick(6) {
			case 5:
				// something that is not the terminator after the last '>' (a comment may stand in between)
				junk := []string{"...", `"a b"`, "5x", ">", "h->e", "W", "0x1F"}[g.pick(7)]
				toks = append(toks[:len(toks)-1], junk, ".")
			case 0:
				j := g.pick(len(toks))
				toks = append(toks[:j], toks[j+1:]...)
			case 1:
				j := g.pick(len(toks))
				toks[j] = []string{"999", "<", ">", "@", "1.5.5", "x", `"s"`, "T"}[g.pick(8)]
			case 2:
				toks = append(toks[:len(toks)-1], "<U1 300>", ".")
			case 3:
				toks = toks[:len(toks)-1]
			default:
				j := g.pick(len(toks))
				toks = append(toks[:j], append([]string{"<I1 1000 x x>"}, toks[j:]...)...)
			}
		}
		// a name directly in front of an opening bracket is one token when nothing stands between them and two
		// tokens otherwise: such a sequence (it only arises from the replacements above) is not a layout question
		merges := false
		inText := false
		for j := 0; j+1 < len(toks); j++ {
			if toks[j] == "<" {
				inText = true
			} else if toks[j] == "." {
				inText = false
			}
			isType := false
			for _, ty := range smlTypes {
				if strings.EqualFold(toks[j], ty) {
					isType = true
				}
			}
			if inText && j > 0 && !(toks[j-1] == "<" && isType) && strings.HasPrefix(toks[j+1], "[") && identTailRe.MatchString(toks[j]) {
				merges = true
			}
		}
		if merges {
			continue
		}
		a := layout(g, toks, layoutStyles[0])
		st := layoutStyles[1+g.pick(len(layoutStyles)-1)]
		b := layout(g, toks, st)
		// letter case of keywords, type names, number prefixes
		up := make([]string, len(toks))
		mode := g.pick(3) // every such token in upper case, in lower case, or letter by letter
		header := true
		for j, t := range toks {
			up[j] = t
			if t == "<" {
				header = false
			}
			// in the header only the stream/function code, the wait bit and the direction are
			// keywords; a message name is kept letter for letter
			if header && !headerKwRe.MatchString(t) {
				continue
			}
			if t == "." {
				header = true
			}
			if mode < 2 || g.chance(0.5) {
				up[j] = recase(g, t, mode)
			}
		}
		cc := layout(g, up, layoutStyles[0])
		c.emit(Case{"layouts", []Step{smlStep(a), smlStep(b), smlStep(cc), lexStep(a), lexStep(b)}, false})
	}
}

var headerKwRe = regexp.MustCompile(`^(?i)(s\d+f\d+|w|\[w\]|h(->|<-|<->)e|\.)$`)

// recase changes the letter case of a keyword, type name, boolean, or number prefix / hex digits / exponent
func recase(g *Gen, t string, mode int) string {
	u := strings.ToUpper(t)
	isKw := false
	for _, k := range append(append([]string{}, smlTypes...), "T", "F", "W", "[W]", "H->E", "H<-E", "H<->E") {
		if u == k {
			isKw = true
		}
	}
	if len(u) > 2 && u[0] == 'S' && u[1] >= '0' && u[1] <= '9' && strings.Contains(u, "F") {
		isKw = true
	}
	isNum := len(t) > 0 && (t[0] >= '0' && t[0] <= '9' || t[0] == '-' || t[0] == '+' || t[0] == '.') && !strings.HasPrefix(t, "...")
	if !isKw && !isNum {
		return t
	}
	if mode == 0 {
		return strings.ToUpper(t)
	}
	if mode == 1 {
		return strings.ToLower(t)
	}
	b := []byte(t)
	for i := range b {
		if g.chance(0.5) {
			if b[i] >= 'a' && b[i] <= 'z' {
				b[i] -= 32
			} else if b[i] >= 'A' && b[i] <= 'Z' {
				b[i] += 32
			}
		}
	}
	return string(b)
}

func sameMsgs(a, b []*ast.DataMessage) bool {
	if len(a) != len(b) {
		return false
	}
	for i := range a {
		if a[i].String() != b[i].String() || strings.Join(a[i].Variables(), ",") != strings.Join(b[i].Variables(), ",") {
			return false
		}
	}
	return true
}

func kindsOf(ds []string) string {
	var ks []string
	for _, d := range ds {
		p := strings.Split(diagKind(d), ":")
		ks = append(ks, p[2])
	}
	return strings.Join(ks, ",")
}

// the index of the token at (line, col) in the token stream, comments skipped; -1 if none
func tokenAt(toks []sml.VerifToken, line, col int) int {
	k := 0
	for _, t := range toks {
		if t.Type == 2 {
			continue
		}
		if t.Line == line && t.Col == col {
			return k
		}
		k++
	}
	return -1
}

// the byte offset of (line, col) in text, columns counted in characters; -1 if outside
func posOffset(text string, line, col int) int {
	off := 0
	for l := 1; l < line; l++ {
		i := strings.IndexByte(text[off:], '\n')
		if i < 0 {
			return -1
		}
		off += i + 1
	}
	for c := 1; c < col; c++ {
		if off >= len(text) || text[off] == '\n' {
			return -1
		}
		_, w := utf8.DecodeRuneInString(text[off:])
		off += w
	}
	return off
}

// every token's reported line and column is where its text starts, found from the text alone
func positionsWrong(text string, toks []sml.VerifToken) string {
	for i, t := range toks {
		if t.Type == 0 || t.Type == 1 {
			continue
		}
		off := posOffset(text, t.Line, t.Col)
		if off < 0 || off > len(text) {
			return fmt.Sprintf("token %d %q reported at %d:%d, which is outside the text", i, t.Val, t.Line, t.Col)
		}
		rest := text[off:]
		ok := false
		switch t.Type {
		case 11:
			ok = strings.HasPrefix(rest, "[")
		case 4, 5, 6, 10, 13:
			ok = len(rest) >= len(t.Val) && strings.EqualFold(rest[:len(t.Val)], t.Val)
		default:
			ok = strings.HasPrefix(rest, t.Val)
		}
		if !ok {
			return fmt.Sprintf("token %d %q reported at %d:%d, where the text reads %q", i, t.Val, t.Line, t.Col, short(rest))
		}
	}
	return ""
}

func monitorC08(c *Ctx, id string, cs Case, e *Exec, final []string) {
	for _, k := range []int{3, 4} {
		if k < len(e.Pool) {
			if lr, ok := e.Pool[k].(lexRes); ok {
				if bad := positionsWrong(lr.input, lr.toks); bad != "" {
					c.hit(id, cs, "token-position", bad)
					return
				}
			}
		}
	}
	ra, ok1 := e.Pool[0].(smlRes)
	rb, ok2 := e.Pool[1].(smlRes)
	rc, ok3 := e.Pool[2].(smlRes)
	if !ok1 || !ok2 || !ok3 {
		c.hit(id, cs, "parse-panicked", "")
		return
	}
	c.stats["monitor:pairs"]++
	texts := []string{string(cs.Steps[0].S), string(cs.Steps[1].S), string(cs.Steps[2].S)}
	if !sameMsgs(ra.msgs, rb.msgs) {
		c.hit(id, cs, "layout-changes-messages", fmt.Sprintf("%q vs %q", short(texts[0]), short(texts[1])))
		return
	}
	if kindsOf(ra.errs) != kindsOf(rb.errs) || kindsOf(ra.warns) != kindsOf(rb.warns) {
		c.hit(id, cs, "layout-changes-diagnostics", fmt.Sprintf("%q: %v / %v vs %q: %v / %v", short(texts[0]), ra.errs, ra.warns, short(texts[1]), rb.errs, rb.warns))
		return
	}
	if !sameMsgs(ra.msgs, rc.msgs) || kindsOf(ra.errs) != kindsOf(rc.errs) {
		c.hit(id, cs, "case-changes-result", fmt.Sprintf("%q vs %q: %v vs %v", short(texts[0]), short(texts[2]), ra.errs, rc.errs))
		return
	}
	// diagnostics keep their text and move with their token
	la, lb := e.Pool[3].(lexRes), e.Pool[4].(lexRes)
	da := append(append([]string{}, ra.errs...), ra.warns...)
	db := append(append([]string{}, rb.errs...), rb.warns...)
	for i := range da {
		ma := diagRe.FindStringSubmatch(strings.ReplaceAll(da[i], "\n", " "))
		mb := diagRe.FindStringSubmatch(strings.ReplaceAll(db[i], "\n", " "))
		if ma == nil || mb == nil {
			continue
		}
		if ma[3] != mb[3] && !strings.Contains(ma[3], "found") {
			c.hit(id, cs, "diagnostic-text-changed", fmt.Sprintf("%q vs %q", da[i], db[i]))
			continue
		}
		l1, _ := strconv.Atoi(ma[1])
		c1, _ := strconv.Atoi(ma[2])
		l2, _ := strconv.Atoi(mb[1])
		c2, _ := strconv.Atoi(mb[2])
		ia, ib := tokenAt(la.toks, l1, c1), tokenAt(lb.toks, l2, c2)
		if ia != ib {
			c.hit(id, cs, "diagnostic-moved-wrongly", fmt.Sprintf("%q points at token %d, %q at token %d", da[i], ia, db[i], ib))
		}
	}
}

// ---------- C19: concatenation ----------

var separators = []string{"", " ", "\n", "\r\n", "\t\n  ", "// a comment\n", " // c\r\n// d\n", "\n\n\n"}

func suiteC19(c *Ctx) {
	g := c.gen()
	n := c.scale(1200, 80000)
	for i := 0; i < n; i++ {
		k := 2 + g.pick(3)
		var texts []string
		for j := 0; j < k; j++ {
			sg := &smlGen{g: g}
			var toks []string
			for m := 0; m < 1+g.pick(2); m++ {
				toks = append(toks, sg.message(true)...)
			}
			t := layout(g, toks, layoutStyles[g.pick(len(layoutStyles)-1)])
			if i := strings.LastIndex(t, "\n"); strings.Contains(t[i+1:], "//") {
				t += "\n" // a text ends after its terminator: a comment is closed by its line end
			}
			ms, errs, _ := sml.Parse(t)
			if len(errs) != 0 || len(ms) == 0 {
				j--
				if g.chance(0.05) {
					break
				}
				continue
			}
			texts = append(texts, t)
		}
		if len(texts) < 2 {
			continue
		}
		var steps []Step
		whole := ""
		for j, t := range texts {
			steps = append(steps, smlStep(t))
			if j > 0 {
				sep := separators[g.pick(len(separators))]
				// a name swallows what follows: after a header-only message ending in ".", "." is a token by itself only after a separator
				whole += sep
			}
			whole += t
		}
		steps = append(steps, smlStep(whole))
		c.emit(Case{"concat", steps, false})
		// the same texts behind a prefix that a reader may or may not tolerate at the very start of its input
		// (byte order mark, invisible characters, exotic spaces): whatever is accepted alone is accepted in the middle
		if i%6 == 0 {
			pre := startPrefixes[g.pick(len(startPrefixes))]
			var steps2 []Step
			whole2 := ""
			for j, t := range texts {
				steps2 = append(steps2, smlStep(pre+t))
				if j > 0 {
					whole2 += separators[g.pick(len(separators))]
				}
				whole2 += pre + t
			}
			steps2 = append(steps2, smlStep(whole2))
			c.emit(Case{"concat-prefixed", steps2, false})
		}
		if i%5 == 1 {
			var steps4 []Step
			whole4 := ""
			for j := 0; j < 2+g.pick(3); j++ {
				t := warnTexts[g.pick(len(warnTexts))]
				steps4 = append(steps4, smlStep(t))
				whole4 += t
			}
			steps4 = append(steps4, smlStep(whole4))
			c.emit(Case{"concat-warnings", steps4, false})
		}
		// and in front of bytes that some readers take for the end of the input (Ctrl-Z, NUL, Ctrl-D): a text that is
		// accepted with such a byte after it is still followed by the next text
		if i%6 == 3 {
			suf := endSuffixes[g.pick(len(endSuffixes))]
			var steps3 []Step
			whole3 := ""
			for j, t := range texts {
				steps3 = append(steps3, smlStep(t+suf))
				if j > 0 {
					whole3 += separators[g.pick(len(separators))]
				}
				whole3 += t + suf
			}
			steps3 = append(steps3, smlStep(whole3))
			c.emit(Case{"concat-suffixed", steps3, false})
		}
	}
}

// texts whose messages each draw the same kind of warning (an ellipsis written with a number that is not the
// parser's count, a missing direction): the warnings of a concatenation are those of its texts, one by one
var warnTexts = []string{
	"S1F1 H->E <L <U1 a> ...[3]> .\n",
	"S2F1 W <L <A x> <L <B b> ...[7]>> .\n",
	"S3F1 H<-E n <L <L <U1 p> ...[2]> ...[5]> .\n",
	"S4F1 <L <BOOLEAN t> ...[1]> .\n",
	"S5F1 H->E <L <U2 q> ...> .\n",
	"S6F1 <A \"no direction\"> .\n",
}

var identTailRe = regexp.MustCompile(`[A-Za-z0-9_\]]$`)

var endSuffixes = []string{"\x1a", "\x1a\n", "\n\x1a", "\x00", "\x04", " \x1a ", "\x1a\x1a"}

var startPrefixes = []string{"\xef\xbb\xbf", "\xef\xbb\xbf\n", "\ufeff ", "\u200b", "\x00", "\x0c", "\x0b", "\u00a0", "\u2028", "\u3000", "\ufffe", "\xff\xfe", "\u0085", "\x1a"}

func monitorC19(c *Ctx, id string, cs Case, e *Exec, final []string) {
	n := len(cs.Steps) - 1
	var parts []*ast.DataMessage
	var partWarns []string
	for i := 0; i < n; i++ {
		r, ok := e.Pool[i].(smlRes)
		if !ok || len(r.errs) != 0 {
			return
		}
		parts = append(parts, r.msgs...)
		if k := kindsOf(r.warns); k != "" {
			partWarns = append(partWarns, k)
		}
	}
	c.stats["monitor:concatenations"]++
	w, ok := e.Pool[n].(smlRes)
	if !ok {
		c.hit(id, cs, "parse-panicked", "")
		return
	}
	if len(w.errs) != 0 {
		c.hit(id, cs, "concatenation-refused", fmt.Sprintf("%q: %v", short(string(cs.Steps[n].S)), w.errs))
		return
	}
	if !sameMsgs(parts, w.msgs) {
		c.hit(id, cs, "concatenation-differs", fmt.Sprintf("%q", short(string(cs.Steps[n].S))))
		return
	}
	for i := range parts {
		if parts[i].Header() != w.msgs[i].Header() {
			c.hit(id, cs, "concatenation-header-differs", fmt.Sprintf("%q vs %q", parts[i].Header(), w.msgs[i].Header()))
		}
	}
	// the warnings of the concatenation are those of the texts, in order (positions aside)
	if got, want := kindsOf(w.warns), strings.Join(partWarns, ","); got != want {
		c.hit(id, cs, "concatenation-warnings-differ", fmt.Sprintf("%q: warning kinds %q, the texts alone give %q", short(string(cs.Steps[n].S)), got, want))
	}
}

// ---------- C04: print -> parse ----------

// names the header lexer reads as one name (and not as another token)
var c04Names = []string{"", "Ver.", "a.b.", "x..", "Name", "AreYouThere", "établi", "名前", "a.b", "x-1", "N/A", "q\"uote", "a<b", "b>c", "R2D2", "_", "E5", "Ünïcode", "a/b", "100%", "#1", "(x)", "{y}", "x,y", "é"}

func suiteC04(c *Ctx) {
	// deep nesting: the printed form of a chain of lists is parsed back whatever its depth (the printed text grows
	// with the square of the depth and the lexer is slow on it: 1100 levels, half a minute, in the thorough tier only)
	depths := []int{40, 150, 300}
	if c.thorough {
		depths = append(depths, 500)
	}
	// far deeper trees written on one line (the printed form of a tree 1100 deep has 2.4 million characters of
	// indentation and takes the lexer minutes; the same tokens without the indentation take a moment)
	for _, d := range []int{1001, 1100, 2500} {
		text := "S1F1 H->E Deep\n" + strings.Repeat("<L ", d) + "<U1 7>" + strings.Repeat(">", d) + " .\n"
		c.emit(Case{"deep-compact", []Step{smlStep(text)}, false})
	}
	for _, d := range depths {
		g := c.gen()
		it := g.add(Step{Op: "NU", W: 1, Args: []Arg{{T: 'i', IK: KInt, I: 7}, {T: 's', S: []byte("deep")}}})
		for k := 0; k < d; k++ {
			it = g.add(Step{Op: "NL", Args: []Arg{{T: 'r', Ref: it}}})
		}
		m := g.add(Step{Op: "NM", Name: []byte("Deep"), Stream: 1, Func: 1, WBit: 0, Dir: []byte("H->E"), Ref: it})
		ex := &Exec{}
		ex.Run(g.steps)
		if dm, ok := ex.Pool[m].(*ast.DataMessage); ok {
			sp := g.add(smlStep(dm.String()))
			g.add(Step{Op: "PK", Ref: sp, Idx: 0})
			c.emit(Case{"print-parse", g.steps, false})
		}
	}
	n := c.scale(1500, 20000)
	for i := 0; i < n; i++ {
		g := c.gen()
		var steps []Step
		switch g.pick(3) {
		case 0, 1:
			// a message built through the API, printed, parsed again
			withVars := g.chance(0.5)
			it := g.tree(treeOpts{depth: g.pick(4), vars: withVars, ellipsis: false, maxLeaf: 8})
			if withVars && g.chance(0.5) {
				// canonical ellipsis names: "...[k]" in order of appearance
				sh := randomShape(g, 1+g.pick(3))
				nameEllipses(&sh, nil)
				renumberCanonical(&sh)
				it = g.buildShape(sh).Ref
			}
			f := g.pick(256)
			w := g.pick(3)
			if f%2 == 0 && w == 1 {
				w = 0
			}
			m := g.add(Step{Op: "NM", Name: []byte(c04Names[g.pick(len(c04Names))]), Stream: g.pick(128), Func: f, WBit: w,
				Dir: []byte(directions[g.pick(3)]), Ref: it})
			ex := &Exec{}
			ex.Run(g.steps)
			dm, ok := ex.Pool[m].(*ast.DataMessage)
			if !ok {
				continue
			}
			text := dm.String()
			sp := g.add(smlStep(text))
			g.add(Step{Op: "PK", Ref: sp, Idx: 0})
			steps = g.steps
			c.emit(Case{"print-parse", steps, false})
		default:
			// an accepted text: every returned message is a fixed point of print -> parse
			sg := &smlGen{g: g}
			var toks []string
			for k := 0; k < 1+g.pick(2); k++ {
				toks = append(toks, sg.message(true)...)
			}
			text := layout(g, toks, layoutStyles[g.pick(len(layoutStyles))])
			ms, errs, _ := sml.Parse(text)
			if len(errs) != 0 {
				continue
			}
			steps = append(steps, smlStep(text))
			for k, m := range ms {
				steps = append(steps, Step{Op: "PK", Ref: 0, Idx: k})
				steps = append(steps, smlStep(m.String()))
				steps = append(steps, Step{Op: "PK", Ref: len(steps) - 1, Idx: 0})
			}
			c.emit(Case{"fixed-point", steps, false})
		}
	}
}

func randomShape(g *Gen, depth int) shape {
	k := 1 + g.pick(4)
	s := shape{kind: 'l'}
	ell := false
	for j := 0; j < k; j++ {
		switch {
		case j > 0 && !ell && g.chance(0.4):
			ell = true
			s.sub = append(s.sub, shape{kind: 'e'})
		case depth > 0 && g.chance(0.45):
			s.sub = append(s.sub, randomShape(g, depth-1))
		default:
			s.sub = append(s.sub, shape{kind: "uvacm"[g.pick(5)]})
		}
	}
	return s
}

// the SML parser always numbers ellipses "...[k]", even a single one
func renumberCanonical(s *shape) {
	k := 0
	var rec func(x *shape)
	rec = func(x *shape) {
		if x.kind == 'e' {
			x.name = fmt.Sprintf("...[%d]", k)
			k++
		}
		for i := range x.sub {
			rec(&x.sub[i])
		}
	}
	rec(s)
}

func monitorC04(c *Ctx, id string, cs Case, e *Exec, final []string) {
	check := func(orig, back interface{}, what string) {
		o, ok1 := orig.(*ast.DataMessage)
		b, ok2 := back.(*ast.DataMessage)
		if !ok1 {
			return
		}
		c.stats["monitor:round-trips"]++
		if !ok2 {
			c.hit(id, cs, what+"-lost", fmt.Sprintf("%q does not parse back to one message: %v", short(o.String()), back))
			return
		}
		if o.String() != b.String() || o.Header() != b.Header() || o.Name() != b.Name() || o.StreamCode() != b.StreamCode() ||
			o.FunctionCode() != b.FunctionCode() || o.WaitBit() != b.WaitBit() || o.Direction() != b.Direction() ||
			strings.Join(o.Variables(), ",") != strings.Join(b.Variables(), ",") {
			c.hit(id, cs, what+"-differs", fmt.Sprintf("%q parsed back as %q (variables %v vs %v)", short(o.String()), short(b.String()), o.Variables(), b.Variables()))
			return
		}
		if len(o.Variables()) == 0 {
			x := o.SetWaitBit(false).SetSessionIDAndSystemBytes(5, []byte{1, 2, 3, 4}).ToBytes()
			y := b.SetWaitBit(false).SetSessionIDAndSystemBytes(5, []byte{1, 2, 3, 4}).ToBytes()
			if hex.EncodeToString(x) != hex.EncodeToString(y) {
				c.hit(id, cs, what+"-bytes-differ", fmt.Sprintf("%q", short(o.String())))
			}
		}
	}
	if cs.Label == "deep-compact" {
		res, ok := e.Pool[0].(smlRes)
		if !ok || len(res.errs) != 0 || len(res.msgs) != 1 {
			c.hit(id, cs, "deep-text-refused", fmt.Sprintf("%q: %v", short(string(cs.Steps[0].S)), e.Pool[0]))
		}
		return
	}
	if cs.Label == "print-parse" {
		n := len(cs.Steps)
		res, ok := e.Pool[n-2].(smlRes)
		if !ok {
			c.hit(id, cs, "parse-panicked", "")
			return
		}
		if _, isMsg := e.Pool[n-3].(*ast.DataMessage); isMsg && (len(res.errs) != 0 || len(res.warns) != 0 || len(res.msgs) != 1) {
			c.hit(id, cs, "printed-form-not-clean", fmt.Sprintf("%q: %d messages, errors %v, warnings %v", short(string(cs.Steps[n-2].S)), len(res.msgs), res.errs, res.warns))
			return
		}
		check(e.Pool[n-3], e.Pool[n-1], "print-parse")
		return
	}
	for i := 1; i+2 < len(cs.Steps)+0 && i+2 <= len(e.Pool)-0; i += 3 {
		if i+2 >= len(e.Pool) {
			break
		}
		res, ok := e.Pool[i+1].(smlRes)
		if ok && (len(res.errs) != 0 || len(res.warns) != 0 || len(res.msgs) != 1) {
			c.hit(id, cs, "fixed-point-not-clean", fmt.Sprintf("%q: errors %v warnings %v", short(string(cs.Steps[i+1].S)), res.errs, res.warns))
			continue
		}
		check(e.Pool[i], e.Pool[i+2], "fixed-point")
	}
}
