package main

// suites_wire.go — suites C13 (length header), C02 (encoding), C01 (round
// trip), C03 (decoder acceptance).

import (
	"bytes"
	"fmt"
	"math"

	"github.com/wolimst/lib-secs2-hsms-go/pkg/ast"
	"github.com/wolimst/lib-secs2-hsms-go/pkg/parser/hsms"
)

var typNames = []string{"list", "binary", "boolean", "ascii", "i8", "i1", "i2", "i4", "f8", "f4", "u8", "u1", "u2", "u4"}
var typWidth = map[string]int{"list": 1, "binary": 1, "boolean": 1, "ascii": 1, "i8": 8, "i1": 1, "i2": 2, "i4": 4,
	"f8": 8, "f4": 4, "u8": 8, "u1": 1, "u2": 2, "u4": 4}

func init() {
	suites["C13"] = suiteC13
	monitors["C13"] = monitorC13
	suites["C02"] = suiteC02
	monitors["C02"] = monitorC02
	suites["C01"] = suiteC01
	monitors["C01"] = monitorC01
	suites["C03"] = suiteC03
	monitors["C03"] = monitorC03
}

// ---------- C13 ----------

func suiteC13(c *Ctx) {
	g := c.gen()
	// header function at and around every boundary, for every type name
	var steps []Step
	flush := func(label string) {
		if len(steps) > 0 {
			c.emit(Case{label, steps, false})
			steps = nil
		}
	}
	for _, typ := range append(append([]string{}, typNames...), "i3", "", "LIST", "u16") {
		w := typWidth[typ]
		if w == 0 {
			w = 1
		}
		for _, lim := range []int{0, 255, 256, 65535, 65536, 16777215, 16777216} {
			for d := -2; d <= 2; d++ {
				n := lim/w + d
				if n < 0 {
					continue
				}
				steps = append(steps, Step{Op: "HB", S: []byte(typ), N: int64(n)})
			}
		}
		flush("header-boundaries")
	}
	// the same small headers asked for again after the caller has written over what it was handed
	// (a header is the caller's: nothing may be shared between two answers), and small items encoded twice
	for _, typ := range typNames {
		for n := 0; n <= 70; n++ {
			steps = append(steps, Step{Op: "HB", S: []byte(typ), N: int64(n)})
		}
		for n := 0; n <= 70; n++ {
			steps = append(steps, Step{Op: "HB", S: []byte(typ), N: int64(n)})
		}
		c.emit(Case{"header-small-scribbled", steps, true})
		steps = nil
	}
	for _, sp := range leafSpecs {
		g2 := c.gen()
		for rep := 0; rep < 2; rep++ {
			for n := 0; n <= 9; n++ {
				it := g2.leaf(sp, n, false)
				m := g2.hsmsMsg(it)
				g2.add(Step{Op: "RP", Ref: m})
			}
		}
		c.emit(Case{"item-small-scribbled", g2.steps, true})
	}
	nrand := c.scale(20000, 400000)
	for i := 0; i < nrand; i++ {
		typ := typNames[g.pick(len(typNames))]
		var n int
		switch g.pick(4) {
		case 0:
			n = g.pick(300)
		case 1:
			n = g.pick(70000)
		case 2:
			n = g.pick(16777216/typWidth[typ] + 3)
		default:
			n = g.pick(1 << 25)
		}
		steps = append(steps, Step{Op: "HB", S: []byte(typ), N: int64(n)})
		if len(steps) == 400 {
			flush("header-random")
		}
	}
	flush("header-random")
	// real items around the length-byte boundaries, encoded and decoded again
	sizes := []int{254, 255, 256, 257, 65534, 65535, 65536, 65537}
	if c.thorough {
		// the model is slow on long items (well over a minute per million elements, and more than linear): the
		// thorough tier goes to 2^18 elements; the limit itself (16,777,215) is exercised on the library by
		// the limit probes of the monitor
		sizes = append(sizes, 1<<17, 1<<18)
	}
	for _, sp := range leafSpecs {
		for _, total := range sizes {
			n := total / sp.w
			// the model costs ~40 us per element: the quick tier keeps the 64K
			// boundary for ASCII and U2 only, the thorough tier has every format
			if total > 60000 && !c.thorough && !(sp.op == "NA" || (sp.op == "NU" && sp.w == 2)) {
				continue
			}
			if total > 70000 && !(sp.op == "NA" || sp.op == "NU" && sp.w == 8) {
				continue
			}
			g2 := c.gen()
			it := g2.leaf(sp, n, false)
			m := g2.hsmsMsg(it)
			g2.add(Step{Op: "RP", Ref: m})
			c.emit(Case{"item-boundary", g2.steps, false})
		}
	}
	// lists
	listSizes := []int{254, 255, 256, 257}
	if c.thorough {
		listSizes = append(listSizes, 65535, 65536)
	}
	for _, n := range listSizes {
		g2 := c.gen()
		ch := g2.leaf(leafSpec{"NU", 1}, 1, false)
		it := g2.add(Step{Op: "NL", Args: []Arg{{T: '*', N: int64(n), Sub: &Arg{T: 'r', Ref: ch}}}})
		m := g2.hsmsMsg(it)
		g2.add(Step{Op: "RP", Ref: m})
		c.emit(Case{"list-boundary", g2.steps, false})
	}
}

// The limit itself, on the library alone (the model side of these sizes is in
// the thorough tier): constructible iff count*width <= 16,777,215; the encoding
// of a constructible item is non-empty, has the right header and decodes back.
func monitorC13(c *Ctx, id string, cs Case, e *Exec, final []string) {
	if cs.Label != "header-boundaries" || c.stats["limit-probe"] > 0 {
		return
	}
	c.stats["limit-probe"] = 1
	type probe struct {
		name string
		w    int
		mk   func(n int) ast.ItemNode
	}
	rep := func(n int, v interface{}) []interface{} {
		r := make([]interface{}, n)
		for i := range r {
			r[i] = v
		}
		return r
	}
	probes := []probe{
		{"ascii", 1, func(n int) ast.ItemNode { return ast.NewASCIINode(string(bytes.Repeat([]byte{'a'}, n))) }},
		{"binary", 1, func(n int) ast.ItemNode { return ast.NewBinaryNode(rep(n, 7)...) }},
		{"boolean", 1, func(n int) ast.ItemNode { return ast.NewBooleanNode(rep(n, true)...) }},
		{"u8", 8, func(n int) ast.ItemNode { return ast.NewUintNode(8, rep(n, uint64(math.MaxUint64))...) }},
		{"i4", 4, func(n int) ast.ItemNode { return ast.NewIntNode(4, rep(n, -2)...) }},
		{"f4", 4, func(n int) ast.ItemNode { return ast.NewFloatNode(4, rep(n, float32(1.5))...) }},
		{"u2", 2, func(n int) ast.ItemNode { return ast.NewUintNode(2, rep(n, 513)...) }},
	}
	if c.thorough {
		probes = append(probes,
			probe{"i8", 8, func(n int) ast.ItemNode { return ast.NewIntNode(8, rep(n, int64(math.MinInt64))...) }},
			probe{"f8", 8, func(n int) ast.ItemNode { return ast.NewFloatNode(8, rep(n, 2.5)...) }},
			probe{"u4", 4, func(n int) ast.ItemNode { return ast.NewUintNode(4, rep(n, uint32(math.MaxUint32))...) }},
			probe{"u1", 1, func(n int) ast.ItemNode { return ast.NewUintNode(1, rep(n, 200)...) }},
			probe{"i1", 1, func(n int) ast.ItemNode { return ast.NewIntNode(1, rep(n, -128)...) }},
			probe{"i2", 2, func(n int) ast.ItemNode { return ast.NewIntNode(2, rep(n, -32768)...) }},
			probe{"list", 1, func(n int) ast.ItemNode { return ast.NewListNode(rep(n, ast.NewBooleanNode(true))...) }})
	}
	// a fill goes through the same limit as the constructor
	for _, decl := range [][2]int{{0, -1}, {0, 20000000}, {16777216, -1}} {
		for _, n := range []int{16777215, 16777216} {
			if n < decl[0] {
				continue
			}
			var it ast.ItemNode
			func() {
				defer func() { recover() }()
				it = ast.NewASCIINodeVariable("v", decl[0], decl[1]).FillVariables(map[string]interface{}{"v": string(bytes.Repeat([]byte{'z'}, n))})
			}()
			c.stats["limit-probe-items"]++
			if (it != nil) != (n <= 16777215) {
				c.hit(id, cs, "limit-fill", fmt.Sprintf("ASCII variable [%d..%d] filled with %d characters: built=%v", decl[0], decl[1], n, it != nil))
			} else if it != nil && len(it.ToBytes()) != n+4 {
				c.hit(id, cs, "limit-fill-encoding", fmt.Sprintf("ASCII variable filled with %d characters encodes to %d bytes", n, len(it.ToBytes())))
			}
		}
	}
	bigListProbe(c, id, cs)
	if c.thorough {
		// an ellipsis expanded to exactly the largest list (about 1.5 GB for a few seconds: thorough tier only)
		var filled ast.ItemNode
		func() {
			defer func() { recover() }()
			filled = ast.NewListNode(ast.NewBooleanNode(true), "...").FillVariables(map[string]interface{}{"...": 16777214})
		}()
		c.stats["limit-probe-items"]++
		if filled == nil {
			c.hit(id, cs, "limit-ellipsis", "an ellipsis expanded to exactly 16,777,215 elements is refused")
		} else if filled.Size() != 16777215 || len(filled.Variables()) != 0 {
			c.hit(id, cs, "limit-ellipsis", fmt.Sprintf("an ellipsis expanded 16,777,214 times: %d elements, %d variables", filled.Size(), len(filled.Variables())))
		}
		filled = nil
	}
	for _, p := range probes {
		nmax := 16777215 / p.w
		for _, n := range []int{nmax, nmax + 1} {
			var it ast.ItemNode
			func() {
				defer func() { recover() }()
				it = p.mk(n)
			}()
			c.stats["limit-probe-items"]++
			want := n*p.w <= 16777215
			if (it != nil) != want {
				c.hit(id, cs, "limit", fmt.Sprintf("type %s count %d (bytes %d): constructed=%v, expected %v", p.name, n, n*p.w, it != nil, want))
				continue
			}
			if it == nil {
				continue
			}
			b := it.ToBytes()
			ln := n * p.w
			if p.name == "list" {
				ln = n
			}
			if len(b) < 4 || b[0]&3 != 3 || int(b[1])<<16|int(b[2])<<8|int(b[3]) != ln {
				c.hit(id, cs, "limit-header", fmt.Sprintf("type %s count %d: header % x", p.name, n, b[:min(len(b), 4)]))
				continue
			}
			m := ast.NewHSMSDataMessage("", 1, 1, 0, "H->E", it, 1, []byte{0, 0, 0, 1})
			mb := m.ToBytes()
			back, ok := hsms.Parse(mb)
			if !ok || !bytes.Equal(back.ToBytes(), mb) {
				c.hit(id, cs, "limit-decode", fmt.Sprintf("type %s count %d: decode ok=%v", p.name, n, ok))
			}
		}
	}
}

// the limit is per item: a list of items at the limit is a message of more than
// 16,777,215 text bytes, and encodes and decodes like any other
func bigListProbe(c *Ctx, id string, cs Case) {
	big := ast.NewASCIINode(string(bytes.Repeat([]byte{'q'}, 16777215)))
	vals := make([]interface{}, 9000000)
	for i := range vals {
		vals[i] = 7
	}
	half := ast.NewBinaryNode(vals...)
	for k, it := range []ast.ItemNode{ast.NewListNode(big), ast.NewListNode(half, half), ast.NewListNode(ast.NewListNode(big), half)} {
		c.stats["limit-probe-items"]++
		b := it.ToBytes()
		if len(b) < 16777215 {
			c.hit(id, cs, "limit-list-encoding", fmt.Sprintf("list probe %d: a variable-free list encodes to %d bytes", k, len(b)))
			continue
		}
		m := ast.NewHSMSDataMessage("", 1, 1, 0, "H->E", it, 1, []byte{0, 0, 0, 1})
		mb := m.ToBytes()
		back, ok := hsms.Parse(mb)
		if !ok || !bytes.Equal(back.ToBytes(), mb) {
			c.hit(id, cs, "limit-list-decode", fmt.Sprintf("list probe %d (%d message bytes): decode ok=%v", k, len(mb), ok))
		}
	}
}

// the largest items and messages larger than one item, on the library alone,
// once per run: they are constructible, encode, decode and encode again to the same bytes
func bigMessagesProbe(c *Ctx, id string, cs Case) {
	if c.stats["limit-probe"] > 0 {
		return
	}
	c.stats["limit-probe"] = 1
	for _, n := range []int{16777214, 16777215} {
		var it ast.ItemNode
		func() {
			defer func() { recover() }()
			it = ast.NewASCIINode(string(bytes.Repeat([]byte{'m'}, n)))
		}()
		c.stats["limit-probe-items"]++
		if it == nil {
			c.hit(id, cs, "limit", fmt.Sprintf("an ASCII item of %d characters is refused", n))
			continue
		}
		b := it.ToBytes()
		if len(b) != n+4 {
			c.hit(id, cs, "limit-encoding", fmt.Sprintf("an ASCII item of %d characters encodes to %d bytes", n, len(b)))
			continue
		}
		m := ast.NewHSMSDataMessage("", 1, 1, 0, "H->E", it, 1, []byte{0, 0, 0, 1})
		mb := m.ToBytes()
		back, ok := hsms.Parse(mb)
		if !ok || !bytes.Equal(back.ToBytes(), mb) {
			c.hit(id, cs, "limit-decode", fmt.Sprintf("an ASCII item of %d characters: decode ok=%v", n, ok))
		}
	}
	bigListProbe(c, id, cs)
}

func min(a, b int) int {
	if a < b {
		return a
	}
	return b
}

// ---------- C02 ----------

// the frame of a message larger than any single item, on the library alone (once per run)
func monitorC02(c *Ctx, id string, cs Case, e *Exec, final []string) {
	bigMessagesProbe(c, id, cs)
}

func suiteC02(c *Ctx) {
	// exhaustive 1-byte formats
	for _, sp := range []leafSpec{{"NI", 1}, {"NU", 1}, {"NB", 1}} {
		var as []Arg
		for v := 0; v < 256; v++ {
			switch sp.op {
			case "NI":
				as = append(as, Arg{T: 'i', IK: KInt8, I: int64(int8(v))})
			case "NU":
				as = append(as, Arg{T: 'i', IK: KUint8, U: uint64(v)})
			case "NB":
				as = append(as, Arg{T: 'i', IK: KInt, I: int64(v)})
			}
		}
		c.emit(Case{"exhaustive-1byte", []Step{{Op: sp.op, W: 1, Args: as}}, false})
	}
	{
		var steps []Step
		for v := 0; v < 128; v++ {
			steps = append(steps, Step{Op: "NA", S: []byte{byte(v)}})
		}
		steps = append(steps, Step{Op: "NO", Args: []Arg{{T: 'b', B: true}, {T: 'b'}}})
		c.emit(Case{"exhaustive-1byte", steps, false})
	}
	// every item type at the boundaries of the one-, two- and three-byte length forms, lists included
	for _, n := range []int{0, 1, 254, 255, 256, 257, 65535, 65536} {
		steps := []Step{{Op: "NO", Args: []Arg{{T: 'b', B: true}}}, {Op: "NB", Args: []Arg{{T: 'i', IK: KInt, I: 9}, {T: 'i', IK: KInt, I: 200}}}}
		kids := make([]Arg, n)
		for i := range kids {
			kids[i] = Arg{T: 'r', Ref: i % 2}
		}
		steps = append(steps, Step{Op: "NL", Args: kids})
		vals := make([]Arg, n)
		for i := range vals {
			vals[i] = Arg{T: 'i', IK: KInt, I: int64(i % 251)}
		}
		steps = append(steps, Step{Op: "NB", Args: vals}, Step{Op: "NU", W: 1, Args: vals}, Step{Op: "NA", S: bytes.Repeat([]byte{'k'}, n)})
		bs := make([]Arg, n)
		for i := range bs {
			bs[i] = Arg{T: 'b', B: i%3 == 0}
		}
		steps = append(steps, Step{Op: "NO", Args: bs})
		// the list inside a list, so that an inner header sits at an offset
		if n <= 257 {
			steps = append(steps, Step{Op: "NL", Args: []Arg{{T: 'r', Ref: 0}, {T: 'r', Ref: 2}, {T: 'r', Ref: 2}}})
		} else {
			steps = append(steps, Step{Op: "NL", Args: []Arg{{T: 'r', Ref: 0}, {T: 'r', Ref: 2}}})
		}
		c.emit(Case{"length-form-boundaries", steps, false})
	}
	// exhaustive 2-byte formats, 4096 values per item
	for base := 0; base < 65536; base += 4096 {
		var ai, au []Arg
		for v := base; v < base+4096; v++ {
			ai = append(ai, Arg{T: 'i', IK: KInt16, I: int64(int16(v))})
			au = append(au, Arg{T: 'i', IK: KUint16, U: uint64(v)})
		}
		c.emit(Case{"exhaustive-2byte", []Step{{Op: "NI", W: 2, Args: ai}, {Op: "NU", W: 2, Args: au}}, false})
	}
	// random trees and messages, complete and incomplete
	n := c.scale(1500, 5000)
	for i := 0; i < n; i++ {
		g := c.gen()
		withVars := g.chance(0.25)
		it := g.tree(treeOpts{depth: g.pick(5), vars: withVars, ellipsis: withVars && g.chance(0.3), maxLeaf: c.scale(600, 2000)})
		switch g.pick(4) {
		case 0:
			m := g.hsmsMsg(it)
			if !withVars && g.chance(0.5) {
				// re-addressed after it has been encoded once: the new frame carries the new address
				m = g.add(Step{Op: "SS", Ref: m, Sid: g.sessionID(), Sys: g.sysBytes()})
				if g.chance(0.5) {
					m = g.add(Step{Op: "SW", Ref: m, B: g.chance(0.5)})
					g.add(Step{Op: "SS", Ref: m, Sid: g.sessionID(), Sys: g.sysBytes()})
				}
			}
		case 1: // not complete: optional wait bit / no session id
			fn := g.pick(256)
			wb := g.pick(3)
			if fn%2 == 0 && wb == 1 {
				wb = 2 // W is not allowed on an even function; optional is
			}
			m := g.add(Step{Op: "NM", Name: []byte("n"), Stream: g.pick(128), Func: fn, WBit: wb,
				Dir: []byte(directions[g.pick(3)]), Ref: it})
			if g.chance(0.7) {
				m = g.add(Step{Op: "SS", Ref: m, Sid: g.sessionID(), Sys: g.sysBytes()})
			}
			if g.chance(0.5) {
				g.add(Step{Op: "SW", Ref: m, B: g.chance(0.5)})
			}
		}
		c.emit(Case{"tree", g.steps, false})
	}
}

// ---------- C01 ----------

func suiteC01(c *Ctx) {
	// a few large items in every run (the model costs ~40 us per element)
	for _, sp := range []leafSpec{{"NA", 1}, {"NU", 2}, {"NI", 8}, {"NF", 8}, {"NB", 1}} {
		for _, total := range []int{65535, 65536} {
			if sp.op != "NA" && total == 65535 && !c.thorough {
				continue
			}
			g := c.gen()
			it := g.leaf(sp, total/sp.w, false)
			m := g.hsmsMsg(it)
			g.add(Step{Op: "RP", Ref: m})
			c.emit(Case{"roundtrip-large", g.steps, false})
		}
	}
	n := c.scale(1200, 2500)
	for i := 0; i < n; i++ {
		g := c.gen()
		var m int
		switch g.pick(5) {
		case 0: // a template, filled completely, then completed
			it := g.tree(treeOpts{depth: g.pick(4), vars: false, maxLeaf: 300})
			tm := g.add(Step{Op: "NM", Name: []byte("T"), Stream: g.pick(128), Func: 1 + 2*g.pick(128), WBit: 2,
				Dir: []byte("H->E"), Ref: it})
			tm = g.add(Step{Op: "SW", Ref: tm, B: g.chance(0.5)})
			m = g.add(Step{Op: "SS", Ref: tm, Sid: g.sessionID(), Sys: g.sysBytes()})
		case 1: // header-only message
			it := g.add(Step{Op: "NE"})
			m = g.hsmsMsg(it)
		default:
			depth := g.pick(5)
			if g.chance(0.05) {
				depth = 20 + g.pick(c.scale(230, 330))
			}
			var it int
			if depth >= 20 {
				// a deep chain of single-element lists around a leaf
				it = g.leaf(leafSpecs[g.pick(len(leafSpecs))], g.pick(4), false)
				for d := 0; d < depth; d++ {
					it = g.add(Step{Op: "NL", Args: []Arg{{T: 'r', Ref: it}}})
				}
				g.count("deep-chain")
			} else {
				it = g.tree(treeOpts{depth: depth, maxLeaf: c.scale(400, 1000)})
			}
			m = g.hsmsMsg(it)
		}
		if g.chance(0.3) {
			// the complete message has been encoded once (every entry is looked at when it is made); a message
			// derived from it by the producers is a message of its own: other address, other wait bit, other bytes
			switch g.pick(3) {
			case 0:
				m = g.add(Step{Op: "SS", Ref: m, Sid: g.sessionID(), Sys: g.sysBytes()})
			case 1:
				m = g.add(Step{Op: "SW", Ref: m, B: g.chance(0.5)})
				m = g.add(Step{Op: "SS", Ref: m, Sid: g.sessionID(), Sys: g.sysBytes()})
			default:
				m = g.add(Step{Op: "FM", Ref: m})
				m = g.add(Step{Op: "SS", Ref: m, Sid: g.sessionID(), Sys: g.sysBytes()})
			}
			g.count("producer-after-encoding")
		}
		if g.chance(0.08) {
			// a long text: a decoder that keeps a view of its input instead of a copy shows when the input is reused
			it := g.add(Step{Op: "NA", S: g.asciiBytes(1024 + g.pick(6000))})
			m = g.hsmsMsg(it)
			r := g.add(Step{Op: "RP", Ref: m})
			g.add(Step{Op: "RP", Ref: r})
			c.emit(Case{"roundtrip-long-text", g.steps, true})
			continue
		}
		r := g.add(Step{Op: "RP", Ref: m})
		if g.chance(0.3) {
			g.add(Step{Op: "RP", Ref: r}) // the decoder's own output, once more
		}
		// in a quarter of the cases every buffer handed in or out is reused afterwards
		c.emit(Case{"roundtrip", g.steps, g.chance(0.25)})
	}
}

// the property statement itself, on the library alone
func monitorC01(c *Ctx, id string, cs Case, e *Exec, final []string) {
	bigMessagesProbe(c, id, cs)
	for i, s := range cs.Steps {
		if s.Op != "RP" {
			continue
		}
		src, ok := e.Pool[s.Ref].(*ast.DataMessage)
		if !ok {
			continue
		}
		sb := src.ToBytes()
		if len(sb) == 0 {
			continue // not complete
		}
		c.stats["monitor:roundtrips"]++
		back, ok := e.Pool[i].(*ast.DataMessage)
		if !ok {
			c.hit(id, cs, "decode-failed", fmt.Sprintf("step %d: decoding the encoding of a complete message failed (%d bytes)", i, len(sb)))
			return
		}
		if back.StreamCode() != src.StreamCode() || back.FunctionCode() != src.FunctionCode() || back.WaitBit() != src.WaitBit() ||
			back.SessionID() != src.SessionID() || !bytes.Equal(back.SystemBytes(), src.SystemBytes()) {
			c.hit(id, cs, "header-differs", fmt.Sprintf("step %d", i))
			return
		}
		if !bytes.Equal(back.ToBytes(), sb) {
			c.hit(id, cs, "reencode-differs", fmt.Sprintf("step %d", i))
			return
		}
		// identical item tree: the printed forms below the header line agree
		if itemText(back.String()) != itemText(src.String()) {
			c.hit(id, cs, "item-differs", fmt.Sprintf("step %d", i))
			return
		}
	}
}

func itemText(s string) string {
	for i := 0; i < len(s); i++ {
		if s[i] == '\n' {
			return s[i:]
		}
	}
	return ""
}

// ---------- C03 ----------

func suiteC03(c *Ctx) {
	nmsg := c.scale(260, 2500)
	budget := c.scale(60, 150)
	var steps []Step
	nflush := 0
	flush := func(label string) {
		if len(steps) > 0 {
			// every third batch: the input buffers are written over after each call
			nflush++
			c.emit(Case{label, steps, nflush%3 == 0})
			steps = nil
		}
	}
	// nesting is not limited: chains of single-element lists of every depth up to 300 are well formed
	for d := 1; d <= c.scale(300, 900); d += 1 + d/40 {
		text := bytes.Repeat([]byte{1, 1}, d)
		text = append(text, 0xa5, 1, byte(d))
		steps = append(steps, Step{Op: "HP", S: frame(text)})
		if len(steps) >= 40 {
			flush("deep")
		}
	}
	flush("deep")
	// long texts and long binary items: what the decoder returns must not be a view of the caller's buffer
	// (the buffer is written over after every call in these cases)
	for _, n := range []int{1023, 1024, 1025, 4096, 70000} {
		txt := bytes.Repeat([]byte{'t'}, n)
		for i := range txt {
			txt[i] = byte('a' + i%26)
		}
		var hdr []byte
		if n < 256 {
			hdr = []byte{0x41, byte(n)}
		} else if n < 65536 {
			hdr = []byte{0x42, byte(n >> 8), byte(n)}
		} else {
			hdr = []byte{0x43, byte(n >> 16), byte(n >> 8), byte(n)}
		}
		item := append(append([]byte{}, hdr...), txt...)
		bin := append([]byte{hdr[0] - 0x20}, hdr[1:]...)
		bin = append(bin, txt...)
		steps = append(steps, Step{Op: "HP", S: frame(item)}, Step{Op: "HP", S: frame(append([]byte{1, 2}, append(item, bin...)...))})
		c.emit(Case{"long-items-scribbled", steps, true})
		steps = nil
	}
	for i := 0; i < nmsg; i++ {
		g := c.gen()
		var it int
		if g.chance(0.15) {
			it = g.add(Step{Op: "NE"})
		} else {
			it = g.tree(treeOpts{depth: g.pick(4), maxLeaf: 40})
		}
		m := g.hsmsMsg(it)
		e := &Exec{}
		e.Run(g.steps)
		dm, ok := e.Pool[m].(*ast.DataMessage)
		if !ok {
			continue
		}
		valid := dm.ToBytes()
		if len(valid) == 0 || len(valid) > 4000 {
			continue
		}
		steps = append(steps, Step{Op: "HP", S: valid})
		c.stats["c03:valid"]++
		for k := 0; k < 3; k++ {
			rel := relaxMessage(valid, c.r)
			steps = append(steps, Step{Op: "HP", S: rel})
			c.stats["c03:relaxed"]++
			if k == 0 {
				for _, mu := range corruptions(rel, c.r, budget/4) {
					steps = append(steps, Step{Op: "HP", S: mu.b})
					c.stats["c03:relaxed-"+mu.kind]++
				}
			}
		}
		full := i < 12
		b := budget
		if full {
			b = 100000
		}
		for _, mu := range corruptions(valid, c.r, b) {
			steps = append(steps, Step{Op: "HP", S: mu.b})
			c.stats["c03:"+mu.kind]++
		}
		flush("corruptions")
	}
	// float items holding every kind of non-finite pattern (refused), next to finite neighbours (accepted)
	for _, p := range []uint32{0x7f800000, 0xff800000, 0x7fc00000, 0x7f800001, 0xffc12345, 0x7f7fffff, 0xff7fffff, 0x00000001, 0x80000000} {
		text := []byte{0o44<<2 | 1, 8, 0x3f, 0x80, 0, 0, byte(p >> 24), byte(p >> 16), byte(p >> 8), byte(p)}
		steps = append(steps, Step{Op: "HP", S: frame(text)})
	}
	for _, p := range []uint64{0x7ff0000000000000, 0xfff0000000000000, 0x7ff8000000000000, 0x7ff0000000000001, 0xfff8000000000123, 0x7fefffffffffffff, 0x0000000000000001} {
		text := []byte{0o40<<2 | 1, 8}
		for i := 7; i >= 0; i-- {
			text = append(text, byte(p>>(8*uint(i))))
		}
		steps = append(steps, Step{Op: "HP", S: frame(text)})
		steps = append(steps, Step{Op: "HP", S: frame(append([]byte{1, 2}, append(text, 0xa5, 1, 7)...))})
	}
	flush("non-finite")
	// control messages, valid and corrupted
	for st := 0; st < 16; st++ {
		g := c.gen()
		h := []byte{byte(g.pick(256)), byte(g.pick(256)), byte(g.pick(256)), byte(g.pick(256)), 0, byte(st), 1, 2, 3, 4}
		valid := append([]byte{0, 0, 0, 10}, h...)
		steps = append(steps, Step{Op: "HP", S: valid})
		for _, mu := range corruptions(valid, c.r, 100000) {
			steps = append(steps, Step{Op: "HP", S: mu.b})
		}
		flush("control")
	}
	// unstructured bytes
	nr := c.scale(3000, 200000)
	for i := 0; i < nr; i++ {
		n := c.r.Intn(40)
		b := make([]byte, n)
		c.r.Read(b)
		if n >= 4 && c.r.Intn(2) == 0 {
			setMsgLen(b)
		}
		if n >= 10 && c.r.Intn(2) == 0 {
			b[8], b[9] = 0, 0
		}
		steps = append(steps, Step{Op: "HP", S: b})
		if len(steps) >= 200 {
			flush("random")
		}
	}
	flush("random")
}

// accepted inputs denote their bytes: decoding the re-encoding gives the same
// message again, and a canonical input is reproduced exactly
func monitorC03(c *Ctx, id string, cs Case, e *Exec, final []string) {
	bigMessagesProbe(c, id, cs)
	for i, s := range cs.Steps {
		if s.Op != "HP" {
			continue
		}
		m, ok := e.Pool[i].(ast.HSMSMessage)
		if !ok {
			c.stats["monitor:rejected"]++
			continue
		}
		c.stats["monitor:accepted"]++
		re := m.ToBytes()
		if len(re) == 0 {
			c.hit(id, cs, "accepted-but-unencodable", fmt.Sprintf("step %d input %x", i, s.S))
			continue
		}
		if len(re) > len(s.S) {
			c.hit(id, cs, "reencode-longer", fmt.Sprintf("step %d input %x reencoded %x", i, s.S, re))
			continue
		}
		m2, ok2 := hsms.Parse(re)
		if !ok2 || !bytes.Equal(m2.ToBytes(), re) {
			c.hit(id, cs, "reencode-unstable", fmt.Sprintf("step %d input %x", i, s.S))
		}
	}
}
