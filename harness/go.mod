module verifharness

go 1.16

require github.com/wolimst/lib-secs2-hsms-go v0.0.0

replace github.com/wolimst/lib-secs2-hsms-go => /repo
