package main

// steps.go — the case language: a case is a history, a list of API calls over
// a growing pool of objects. The same text is parsed by the OCaml driver of the
// extracted Coq model (driver/main.ml).

import (
	"encoding/hex"
	"fmt"
	"strconv"
	"strings"
)

// integer kinds, in the order of the model's ikind
const (
	KInt = iota
	KInt8
	KInt16
	KInt32
	KInt64
	KUint
	KUint8
	KUint16
	KUint32
	KUint64
)

type Arg struct {
	T   byte   // 'i' int, '4' float32 bits, '8' float64 bits, 'b' bool, 's' string, 'r' ref, 'o' other, '*' repeat
	IK  int    // integer kind
	I   int64  // signed value (signed kinds)
	U   uint64 // unsigned value (unsigned kinds), float bits
	B   bool
	S   []byte
	Ref int
	N   int64 // repeat count
	Sub *Arg
}

type KV struct {
	K []byte
	V Arg
}

// FloatOracle: strconv.ParseFloat of one number token, at both bit sizes
// (status 0 ok, 1 range error, 2 syntax error)
type FloatOracle struct {
	Tok      []byte
	S32, S64 int
	B32, B64 uint64
}

type Step struct {
	Alnum              []int32       // SML: non-ASCII runes of the input that are letters or digits
	Floats             []FloatOracle // SML: ParseFloat of the number tokens
	Idx                int
	Op                 string
	W                  int
	Args               []Arg
	S                  []byte // string / bytes payload
	Name, Dir, Sys     []byte
	N, Mn, Mx          int64
	Ref                int
	Map                []KV
	Stream, Func, WBit int
	Sid                int
	B                  bool
	B1, B2, B3         byte
}

func hx(b []byte) string {
	if len(b) == 0 {
		return "-"
	}
	return hex.EncodeToString(b)
}

func (a Arg) text(sb *strings.Builder) {
	switch a.T {
	case 'i':
		if a.IK >= KUint {
			fmt.Fprintf(sb, "i%d %d ", a.IK, a.U)
		} else {
			fmt.Fprintf(sb, "i%d %d ", a.IK, a.I)
		}
	case '4':
		fmt.Fprintf(sb, "f4 %d ", a.U)
	case '8':
		fmt.Fprintf(sb, "f8 %d ", a.U)
	case 'b':
		if a.B {
			sb.WriteString("b1 ")
		} else {
			sb.WriteString("b0 ")
		}
	case 's':
		fmt.Fprintf(sb, "s %s ", hx(a.S))
	case 'r':
		fmt.Fprintf(sb, "r %d ", a.Ref)
	case 'o':
		sb.WriteString("o ")
	case '*':
		fmt.Fprintf(sb, "* %d ", a.N)
		a.Sub.text(sb)
	}
}

func argsText(sb *strings.Builder, as []Arg) {
	sb.WriteString("( ")
	for _, a := range as {
		a.text(sb)
	}
	sb.WriteString(") ")
}

func mapText(sb *strings.Builder, m []KV) {
	sb.WriteString("{ ")
	for _, kv := range m {
		sb.WriteString(hx(kv.K))
		sb.WriteString(" ")
		kv.V.text(sb)
	}
	sb.WriteString("} ")
}

func b2i(b bool) int {
	if b {
		return 1
	}
	return 0
}

func (s Step) text(sb *strings.Builder) {
	sb.WriteString(s.Op)
	sb.WriteString(" ")
	switch s.Op {
	case "NL", "NB", "NO":
		argsText(sb, s.Args)
	case "NI", "NU", "NF":
		fmt.Fprintf(sb, "%d ", s.W)
		argsText(sb, s.Args)
	case "NA", "HP", "CN", "CLQ":
		sb.WriteString(hx(s.S) + " ")
	case "NAR":
		fmt.Fprintf(sb, "%02x %d ", s.B1, s.N)
	case "NAV":
		fmt.Fprintf(sb, "%s %d %d ", hx(s.Name), s.Mn, s.Mx)
	case "NE":
	case "FI", "FM":
		fmt.Fprintf(sb, "%d ", s.Ref)
		mapText(sb, s.Map)
	case "NM":
		fmt.Fprintf(sb, "%s %d %d %d %s %d ", hx(s.Name), s.Stream, s.Func, s.WBit, hx(s.Dir), s.Ref)
	case "NH":
		fmt.Fprintf(sb, "%s %d %d %d %s %d %d %s ", hx(s.Name), s.Stream, s.Func, s.WBit, hx(s.Dir), s.Ref, s.Sid, hx(s.Sys))
	case "SW":
		fmt.Fprintf(sb, "%d %d ", s.Ref, b2i(s.B))
	case "SS":
		fmt.Fprintf(sb, "%d %d %s ", s.Ref, s.Sid, hx(s.Sys))
	case "RP", "CLR":
		fmt.Fprintf(sb, "%d ", s.Ref)
	case "CSQ", "CDQ", "CPQ":
		fmt.Fprintf(sb, "%d %s ", s.Sid, hx(s.Sys))
	case "CSR", "CDR":
		fmt.Fprintf(sb, "%d %02x ", s.Ref, s.B1)
	case "CRJ":
		fmt.Fprintf(sb, "%d %02x %02x %s %02x ", s.Sid, s.B1, s.B2, hx(s.Sys), s.B3)
	case "HB":
		fmt.Fprintf(sb, "%s %d ", hx(s.S), s.N)
	case "SP":
		fmt.Fprintf(sb, "%s %s %s ", hx(s.S), alnumText(s.Alnum), floatsText(s.Floats))
	case "SX":
		fmt.Fprintf(sb, "%s %s ", hx(s.S), alnumText(s.Alnum))
	case "PK":
		fmt.Fprintf(sb, "%d %d ", s.Ref, s.Idx)
	default:
		panic("unknown op " + s.Op)
	}
}

func alnumText(a []int32) string {
	if len(a) == 0 {
		return "-"
	}
	parts := make([]string, len(a))
	for i, r := range a {
		parts[i] = strconv.Itoa(int(r))
	}
	return strings.Join(parts, ",")
}

func floatsText(fs []FloatOracle) string {
	if len(fs) == 0 {
		return "-"
	}
	parts := make([]string, len(fs))
	for i, f := range fs {
		parts[i] = fmt.Sprintf("%s:%d:%d:%d:%d", hx(f.Tok), f.S32, f.B32, f.S64, f.B64)
	}
	return strings.Join(parts, ";")
}

func parseAlnum(s string) []int32 {
	if s == "-" {
		return nil
	}
	var r []int32
	for _, p := range strings.Split(s, ",") {
		n, err := strconv.Atoi(p)
		must(err)
		r = append(r, int32(n))
	}
	return r
}

func parseFloats(s string) []FloatOracle {
	if s == "-" {
		return nil
	}
	var r []FloatOracle
	for _, p := range strings.Split(s, ";") {
		f := strings.Split(p, ":")
		var o FloatOracle
		if f[0] != "-" {
			b, err := hex.DecodeString(f[0])
			must(err)
			o.Tok = b
		}
		o.S32, _ = strconv.Atoi(f[1])
		o.B32, _ = strconv.ParseUint(f[2], 10, 64)
		o.S64, _ = strconv.Atoi(f[3])
		o.B64, _ = strconv.ParseUint(f[4], 10, 64)
		r = append(r, o)
	}
	return r
}

func caseText(steps []Step) string {
	var sb strings.Builder
	for i, s := range steps {
		if i > 0 {
			sb.WriteString("; ")
		}
		s.text(&sb)
	}
	return strings.TrimRight(sb.String(), " ")
}

// ---- parsing the case text back (replay, shrinking) ----

type tokStream struct {
	t []string
	i int
}

func (t *tokStream) next() string {
	if t.i >= len(t.t) {
		panic("case text: unexpected end")
	}
	s := t.t[t.i]
	t.i++
	return s
}
func (t *tokStream) peek() string {
	if t.i >= len(t.t) {
		return ""
	}
	return t.t[t.i]
}
func (t *tokStream) int() int   { n, err := strconv.Atoi(t.next()); must(err); return n }
func (t *tokStream) i64() int64 { n, err := strconv.ParseInt(t.next(), 10, 64); must(err); return n }
func (t *tokStream) hexs() []byte {
	s := t.next()
	if s == "-" {
		return nil
	}
	b, err := hex.DecodeString(s)
	must(err)
	return b
}
func (t *tokStream) byte1() byte { b := t.hexs(); return b[0] }

func must(err error) {
	if err != nil {
		panic(err)
	}
}

func (t *tokStream) arg() Arg {
	s := t.next()
	switch {
	case s == "o":
		return Arg{T: 'o'}
	case s == "b0":
		return Arg{T: 'b'}
	case s == "b1":
		return Arg{T: 'b', B: true}
	case s == "s":
		return Arg{T: 's', S: t.hexs()}
	case s == "r":
		return Arg{T: 'r', Ref: t.int()}
	case s == "f4":
		u, err := strconv.ParseUint(t.next(), 10, 64)
		must(err)
		return Arg{T: '4', U: u}
	case s == "f8":
		u, err := strconv.ParseUint(t.next(), 10, 64)
		must(err)
		return Arg{T: '8', U: u}
	case s == "*":
		n := t.i64()
		sub := t.arg()
		return Arg{T: '*', N: n, Sub: &sub}
	case len(s) == 2 && s[0] == 'i':
		k := int(s[1] - '0')
		if k >= KUint {
			u, err := strconv.ParseUint(t.next(), 10, 64)
			must(err)
			return Arg{T: 'i', IK: k, U: u}
		}
		return Arg{T: 'i', IK: k, I: t.i64()}
	}
	panic("case text: bad arg " + s)
}

func (t *tokStream) args() []Arg {
	if t.next() != "(" {
		panic("case text: (")
	}
	var r []Arg
	for t.peek() != ")" {
		r = append(r, t.arg())
	}
	t.next()
	return r
}

func (t *tokStream) fmap() []KV {
	if t.next() != "{" {
		panic("case text: {")
	}
	var r []KV
	for t.peek() != "}" {
		k := t.hexs()
		r = append(r, KV{k, t.arg()})
	}
	t.next()
	return r
}

func parseCase(text string) []Step {
	t := &tokStream{t: strings.Fields(text)}
	var steps []Step
	for t.i < len(t.t) {
		s := Step{Op: t.next()}
		switch s.Op {
		case "NL", "NB", "NO":
			s.Args = t.args()
		case "NI", "NU", "NF":
			s.W = t.int()
			s.Args = t.args()
		case "NA", "HP", "CN", "CLQ":
			s.S = t.hexs()
		case "NAR":
			s.B1 = t.byte1()
			s.N = t.i64()
		case "NAV":
			s.Name = t.hexs()
			s.Mn = t.i64()
			s.Mx = t.i64()
		case "NE":
		case "FI", "FM":
			s.Ref = t.int()
			s.Map = t.fmap()
		case "NM":
			s.Name = t.hexs()
			s.Stream, s.Func, s.WBit = t.int(), t.int(), t.int()
			s.Dir = t.hexs()
			s.Ref = t.int()
		case "NH":
			s.Name = t.hexs()
			s.Stream, s.Func, s.WBit = t.int(), t.int(), t.int()
			s.Dir = t.hexs()
			s.Ref = t.int()
			s.Sid = t.int()
			s.Sys = t.hexs()
		case "SW":
			s.Ref = t.int()
			s.B = t.next() == "1"
		case "SS":
			s.Ref = t.int()
			s.Sid = t.int()
			s.Sys = t.hexs()
		case "RP", "CLR":
			s.Ref = t.int()
		case "CSQ", "CDQ", "CPQ":
			s.Sid = t.int()
			s.Sys = t.hexs()
		case "CSR", "CDR":
			s.Ref = t.int()
			s.B1 = t.byte1()
		case "CRJ":
			s.Sid = t.int()
			s.B1, s.B2 = t.byte1(), t.byte1()
			s.Sys = t.hexs()
			s.B3 = t.byte1()
		case "HB":
			s.S = t.hexs()
			s.N = t.i64()
		case "SP":
			s.S = t.hexs()
			s.Alnum = parseAlnum(t.next())
			s.Floats = parseFloats(t.next())
		case "SX":
			s.S = t.hexs()
			s.Alnum = parseAlnum(t.next())
		case "PK":
			s.Ref = t.int()
			s.Idx = t.int()
		default:
			panic("case text: unknown op " + s.Op)
		}
		steps = append(steps, s)
		if t.peek() == ";" {
			t.next()
		}
	}
	return steps
}
