package main

// cmp.go — compares the observations of the real library with those of the
// extracted model, field by field. The model prints String() output as pieces
// (text and float bit patterns); float pieces are rendered here with
// strconv.FormatFloat, which is the float-text oracle of the model.

import (
	"bufio"
	"encoding/hex"
	"encoding/json"
	"fmt"
	"math"
	"os"
	"strconv"
	"strings"
)

func renderPieces(v string) (string, error) {
	if v == "-" {
		return "", nil
	}
	var sb strings.Builder
	for _, p := range strings.Split(v, ",") {
		i := strings.IndexByte(p, ':')
		if i < 0 {
			return "", fmt.Errorf("bad piece %q", p)
		}
		tag, val := p[:i], p[i+1:]
		switch tag {
		case "t":
			if val != "-" {
				b, err := hex.DecodeString(val)
				if err != nil {
					return "", err
				}
				sb.Write(b)
			}
		case "f4":
			u, err := strconv.ParseUint(val, 10, 64)
			if err != nil {
				return "", err
			}
			sb.WriteString(strconv.FormatFloat(float64(math.Float32frombits(uint32(u))), 'g', -1, 32))
		case "f8":
			u, err := strconv.ParseUint(val, 10, 64)
			if err != nil {
				return "", err
			}
			sb.WriteString(strconv.FormatFloat(math.Float64frombits(u), 'g', -1, 64))
		default:
			return "", fmt.Errorf("bad piece tag %q", tag)
		}
	}
	return sb.String(), nil
}

func parseObs(line string) (tag string, fields map[string]string, order []string) {
	parts := strings.Split(line, " ")
	fields = map[string]string{}
	tag = parts[0]
	for _, p := range parts[1:] {
		i := strings.IndexByte(p, '=')
		if i < 0 {
			continue
		}
		fields[p[:i]] = p[i+1:]
		order = append(order, p[:i])
	}
	return
}

type Diff struct {
	Case  string `json:"case"`
	Entry int    `json:"entry"`
	Field string `json:"field"`
	Go    string `json:"go"`
	Model string `json:"model"`
}

func short(s string) string {
	if len(s) > 400 {
		return s[:400] + fmt.Sprintf("...(%d)", len(s))
	}
	return s
}

// compareObs compares one Go observation with one model observation.
func compareObs(id string, k int, g, m string) []Diff {
	gt, gf, gorder := parseObs(g)
	mt, mf, _ := parseObs(m)
	if gt != mt {
		return []Diff{{id, k, "kind", short(g), short(m)}}
	}
	var ds []Diff
	for _, name := range gorder {
		gv := gf[name]
		mv, ok := mf[name]
		if !ok {
			ds = append(ds, Diff{id, k, name, short(gv), "<absent>"})
			continue
		}
		if strings.HasPrefix(gv, "x:") {
			want, err := renderPieces(mv)
			if err != nil {
				ds = append(ds, Diff{id, k, name, short(gv), "unrenderable: " + err.Error()})
				continue
			}
			got := gv[2:]
			if got == "-" {
				got = ""
			}
			if hex.EncodeToString([]byte(want)) != got {
				gb, _ := hex.DecodeString(got)
				ds = append(ds, Diff{id, k, name, short(string(gb)), short(want)})
			}
			continue
		}
		if gv != mv {
			ds = append(ds, Diff{id, k, name, short(gv), short(mv)})
		}
	}
	for name := range mf {
		if _, ok := gf[name]; !ok {
			ds = append(ds, Diff{id, k, name, "<absent>", short(mf[name])})
		}
	}
	return ds
}

func readObsFile(path string) (map[string][]string, []string, error) {
	f, err := os.Open(path)
	if err != nil {
		return nil, nil, err
	}
	defer f.Close()
	res := map[string][]string{}
	var ids []string
	sc := bufio.NewScanner(f)
	sc.Buffer(make([]byte, 1<<20), 1<<30)
	for sc.Scan() {
		line := sc.Text()
		p := strings.SplitN(line, "\t", 3)
		if len(p) < 2 {
			continue
		}
		id := p[0]
		if _, ok := res[id]; !ok {
			ids = append(ids, id)
			res[id] = nil
		}
		if len(p) == 2 { // "<id>\tERR"
			res[id] = append(res[id], "ERR "+p[1])
			continue
		}
		res[id] = append(res[id], p[2])
	}
	return res, ids, sc.Err()
}

// cmpFiles writes the differences as JSON lines and returns their number and
// the number of (case, entry) pairs compared.
func cmpFiles(goPath, modelPath, outPath string) (int, int, error) {
	gobs, ids, err := readObsFile(goPath)
	if err != nil {
		return 0, 0, err
	}
	mobs, _, err := readObsFile(modelPath)
	if err != nil {
		return 0, 0, err
	}
	out, err := os.Create(outPath)
	if err != nil {
		return 0, 0, err
	}
	defer out.Close()
	w := bufio.NewWriter(out)
	defer w.Flush()
	enc := json.NewEncoder(w)
	nd, nc := 0, 0
	for _, id := range ids {
		g := gobs[id]
		m := mobs[id]
		if len(g) != len(m) {
			enc.Encode(Diff{id, -1, "entries", strconv.Itoa(len(g)), strconv.Itoa(len(m))})
			nd++
			continue
		}
		for k := range g {
			nc++
			for _, d := range compareObs(id, k, g[k], m[k]) {
				enc.Encode(d)
				nd++
			}
		}
	}
	return nd, nc, nil
}
