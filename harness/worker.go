package main

// worker.go — hostile inputs for the two parsers, run in a subprocess so that
// an abort (fatal error: stack overflow / out of memory) or a hang is an
// observation of the parent like any other.
//
//   corr worker-hsms < inputs.hex     one line per input: "<len> <TotalAlloc delta> <ok 0/1> <ns>"
//   corr worker-sml  < inputs.hex     one line per input: "<len> <TotalAlloc delta> <msgs> <errs> <warns> <ns> <diag hex...>"
//   corr k1probe -levels N            decodes N nested single-element lists (truncated: descent only)

import (
	"bufio"
	"encoding/hex"
	"flag"
	"fmt"
	"os"
	"runtime"
	"strings"
	"time"

	"github.com/wolimst/lib-secs2-hsms-go/pkg/parser/hsms"
	"github.com/wolimst/lib-secs2-hsms-go/pkg/parser/sml"
)

func init() {
	extraCmds["worker-hsms"] = cmdWorkerHsms
	extraCmds["worker-sml"] = cmdWorkerSml
	extraCmds["k1probe"] = cmdK1Probe
}

func totalAlloc() uint64 {
	var m runtime.MemStats
	runtime.ReadMemStats(&m)
	return m.TotalAlloc
}

func cmdWorkerHsms(args []string) {
	sc := bufio.NewScanner(os.Stdin)
	sc.Buffer(make([]byte, 1<<20), 1<<30)
	w := bufio.NewWriter(os.Stdout)
	defer w.Flush()
	for sc.Scan() {
		line := strings.TrimSpace(sc.Text())
		if line == "" {
			continue
		}
		var in []byte
		if line != "-" {
			b, err := hex.DecodeString(line)
			if err != nil {
				fmt.Fprintln(w, "BAD")
				continue
			}
			in = b
		}
		fmt.Fprintf(w, "start %d\n", len(in))
		w.Flush()
		a0 := totalAlloc()
		t0 := time.Now()
		panicked := false
		var ok bool
		func() {
			defer func() {
				if r := recover(); r != nil {
					panicked = true
				}
			}()
			_, ok = hsms.Parse(in)
		}()
		dt := time.Since(t0)
		a1 := totalAlloc()
		st := 0
		if ok {
			st = 1
		}
		if panicked {
			st = 2
		}
		fmt.Fprintf(w, "done %d %d %d %d\n", len(in), a1-a0, st, dt.Nanoseconds())
		w.Flush()
	}
}

func cmdWorkerSml(args []string) {
	sc := bufio.NewScanner(os.Stdin)
	sc.Buffer(make([]byte, 1<<20), 1<<30)
	w := bufio.NewWriter(os.Stdout)
	defer w.Flush()
	for sc.Scan() {
		line := strings.TrimSpace(sc.Text())
		if line == "" {
			continue
		}
		var in []byte
		if line != "-" {
			b, err := hex.DecodeString(line)
			if err != nil {
				fmt.Fprintln(w, "BAD")
				continue
			}
			in = b
		}
		fmt.Fprintf(w, "start %d\n", len(in))
		w.Flush()
		a0 := totalAlloc()
		t0 := time.Now()
		panicked := ""
		var nm int
		var errs, warns []string
		func() {
			defer func() {
				if r := recover(); r != nil {
					panicked = fmt.Sprint(r)
				}
			}()
			ms, e, wn := sml.Parse(string(in))
			nm, errs, warns = len(ms), e, wn
		}()
		dt := time.Since(t0)
		a1 := totalAlloc()
		if panicked != "" {
			fmt.Fprintf(w, "done %d %d PANIC %s\n", len(in), a1-a0, hex.EncodeToString([]byte(panicked)))
		} else {
			var ds []string
			for _, e := range errs {
				ds = append(ds, "e"+hex.EncodeToString([]byte(e)))
			}
			for _, e := range warns {
				ds = append(ds, "w"+hex.EncodeToString([]byte(e)))
			}
			fmt.Fprintf(w, "done %d %d %d %d %d %d %s\n", len(in), a1-a0, nm, len(errs), len(warns), dt.Nanoseconds(), strings.Join(ds, " "))
		}
		w.Flush()
	}
}

func cmdK1Probe(args []string) {
	fs := flag.NewFlagSet("k1probe", flag.ExitOnError)
	levels := fs.Int("levels", 8000000, "nesting levels")
	fs.Parse(args)
	text := make([]byte, 0, 2**levels)
	for i := 0; i < *levels; i++ {
		text = append(text, 1, 1)
	}
	n := len(text) + 10
	in := []byte{byte(n >> 24), byte(n >> 16), byte(n >> 8), byte(n), 0, 1, 1, 1, 0, 0, 0, 0, 0, 1}
	in = append(in, text...)
	_, ok := hsms.Parse(in)
	fmt.Println("k1probe returned ok =", ok)
}
