package main

// corr — correspondence harness between the real library (built from /repo's
// working tree with -tags verif) and the extracted Coq model.
//
//   corr gen  -suite C01 -seed N -tier quick|thorough -dir D
//        generates the suite's cases, runs them on the library, writes
//        D/cases.txt, D/go.obs, D/monitor.jsonl, D/stats.json
//   corr cmp  -dir D          compares D/go.obs with D/model.obs -> D/diff.jsonl
//   corr run  -case "<text>" [-mutate]   runs one case on the library, prints observations
//   corr worker ...           (C06/C07) runs hostile inputs in this process, see worker.go

import (
	"bufio"
	"bytes"
	"encoding/json"
	"flag"
	"fmt"
	"math/rand"
	"os"
	"path/filepath"
	"sort"
	"strings"

	"github.com/wolimst/lib-secs2-hsms-go/pkg/ast"
)

type Case struct {
	Label  string
	Steps  []Step
	Mutate bool
}

type MonitorHit struct {
	Case   string `json:"case"`
	Suite  string `json:"suite"`
	What   string `json:"what"`
	Detail string `json:"detail"`
	Text   string `json:"text"`
	Mutate bool   `json:"mutate"`
}

type Ctx struct {
	suite    string
	seed     int64
	thorough bool
	r        *rand.Rand
	stats    map[string]int
	cases    *bufio.Writer
	obs      *bufio.Writer
	mon      *json.Encoder
	n        int
	entries  int
	hits     int
	samples  []string
	monitor  func(c *Ctx, id string, cs Case, e *Exec, final []string)
}

func (c *Ctx) gen() *Gen { return newGen(c.r, c.thorough, c.stats) }

func (c *Ctx) scale(quick, thorough int) int {
	if c.thorough {
		return thorough
	}
	return quick
}

func (c *Ctx) hit(id string, cs Case, what, detail string) {
	c.hits++
	c.mon.Encode(MonitorHit{id, c.suite, what, detail, caseText(cs.Steps), cs.Mutate})
}

func (c *Ctx) emit(cs Case) {
	id := fmt.Sprintf("%s-%d", c.suite, c.n)
	c.n++
	c.stats["label:"+cs.Label]++
	text := caseText(cs.Steps)
	fmt.Fprintf(c.cases, "%s\t%s\n", id, text)
	e := &Exec{Opts: ExecOpts{Mutate: cs.Mutate}}
	final := e.Run(cs.Steps)
	for k, o := range final {
		fmt.Fprintf(c.obs, "%s\t%d\t%s\n", id, k, o)
		c.entries++
		c.stats["entry:"+o[:1]]++
	}
	if len(c.samples) < 5 && len(text) < 600 {
		c.samples = append(c.samples, text)
	}
	for _, n := range e.Notes {
		c.hit(id, cs, "argument-modified", n)
	}
	if cs.Mutate {
		// whatever the suite: with every shared slice scribbled over, each object
		// is still observed as at its creation
		for i := range final {
			if e.Early[i] != final[i] {
				c.hit(id, cs, "object-changed", fmt.Sprintf("entry %d: was %s, now %s", i, short(e.Early[i]), short(final[i])))
				break
			}
		}
	}
	// whatever the suite: the frame of a complete message is the frame of ITS header fields and ITS item, computed
	// here from the accessors alone (a frame kept from another message, or from before a producer was applied, differs)
	for i, x := range e.Pool {
		if m, ok := x.(*ast.DataMessage); ok {
			if why := frameMismatch(m); why != "" {
				c.hit(id, cs, "frame-differs-from-accessors", fmt.Sprintf("entry %d: %s", i, why))
				break
			}
		}
	}
	if c.monitor != nil {
		c.monitor(c, id, cs, e, final)
	}
}

// frameMismatch compares ToBytes() of a message with the frame built from its accessors; "" when they agree
func frameMismatch(m *ast.DataMessage) (why string) {
	defer func() {
		if r := recover(); r != nil {
			why = ""
		}
	}()
	got := m.ToBytes()
	complete := m.WaitBit() != "optional" && m.SessionID() != -1 && len(m.Variables()) == 0
	if !complete {
		if len(got) != 0 {
			return fmt.Sprintf("an incomplete message encodes to %d bytes", len(got))
		}
		return ""
	}
	if len(got) < 14 {
		return fmt.Sprintf("a complete message encodes to %d bytes", len(got))
	}
	n := len(got) - 4
	b2 := byte(m.StreamCode())
	if m.WaitBit() == "true" {
		b2 |= 0x80
	}
	sys := m.SystemBytes()
	if len(sys) != 4 {
		return fmt.Sprintf("%d system bytes", len(sys))
	}
	want := []byte{byte(n >> 24), byte(n >> 16), byte(n >> 8), byte(n), byte(m.SessionID() >> 8), byte(m.SessionID()), b2, byte(m.FunctionCode()), 0, 0, sys[0], sys[1], sys[2], sys[3]}
	if !bytes.Equal(got[:14], want) {
		return fmt.Sprintf("ToBytes() starts % x, the accessors give % x (session id %d, wait bit %s, system bytes %x)", got[:14], want, m.SessionID(), m.WaitBit(), sys)
	}
	return ""
}

type suiteFn func(c *Ctx)

var suites = map[string]suiteFn{}
var monitors = map[string]func(c *Ctx, id string, cs Case, e *Exec, final []string){}

func cmdGen(args []string) {
	fs := flag.NewFlagSet("gen", flag.ExitOnError)
	suite := fs.String("suite", "", "suite id")
	seed := fs.Int64("seed", 1, "seed")
	tier := fs.String("tier", "quick", "quick|thorough")
	dir := fs.String("dir", ".", "output directory")
	corpus := fs.String("corpus", "", "corpus file of case texts to run first")
	fs.Parse(args)
	fn, ok := suites[*suite]
	if !ok {
		fmt.Fprintln(os.Stderr, "unknown suite", *suite)
		os.Exit(2)
	}
	must(os.MkdirAll(*dir, 0o755))
	cf, err := os.Create(filepath.Join(*dir, "cases.txt"))
	must(err)
	of, err := os.Create(filepath.Join(*dir, "go.obs"))
	must(err)
	mf, err := os.Create(filepath.Join(*dir, "monitor.jsonl"))
	must(err)
	c := &Ctx{suite: *suite, seed: *seed, thorough: *tier == "thorough",
		r: rand.New(rand.NewSource(*seed*7919 + int64(len(*suite)))), stats: map[string]int{},
		cases: bufio.NewWriterSize(cf, 1<<20), obs: bufio.NewWriterSize(of, 1<<20), mon: json.NewEncoder(mf),
		monitor: monitors[*suite]}
	if *corpus != "" {
		if data, err := os.ReadFile(*corpus); err == nil {
			for _, line := range strings.Split(string(data), "\n") {
				line = strings.TrimSpace(line)
				if line == "" || strings.HasPrefix(line, "#") {
					continue
				}
				mut := false
				if strings.HasPrefix(line, "!mutate ") {
					mut = true
					line = line[8:]
				}
				c.emit(Case{"corpus", parseCase(line), mut})
			}
		}
	}
	fn(c)
	must(c.cases.Flush())
	must(c.obs.Flush())
	cf.Close()
	of.Close()
	mf.Close()
	keys := make([]string, 0, len(c.stats))
	for k := range c.stats {
		keys = append(keys, k)
	}
	sort.Strings(keys)
	st := map[string]interface{}{"suite": *suite, "seed": *seed, "tier": *tier, "cases": c.n, "entries": c.entries,
		"monitor_hits": c.hits, "distribution": c.stats, "samples": c.samples}
	b, _ := json.MarshalIndent(st, "", " ")
	must(os.WriteFile(filepath.Join(*dir, "stats.json"), b, 0o644))
	fmt.Printf("gen suite=%s cases=%d entries=%d monitor_hits=%d\n", *suite, c.n, c.entries, c.hits)
}

func cmdCmp(args []string) {
	fs := flag.NewFlagSet("cmp", flag.ExitOnError)
	dir := fs.String("dir", ".", "directory")
	fs.Parse(args)
	nd, nc, err := cmpFiles(filepath.Join(*dir, "go.obs"), filepath.Join(*dir, "model.obs"), filepath.Join(*dir, "diff.jsonl"))
	must(err)
	fmt.Printf("cmp compared=%d diffs=%d\n", nc, nd)
}

func cmdRun(args []string) {
	fs := flag.NewFlagSet("run", flag.ExitOnError)
	text := fs.String("case", "", "case text")
	mutate := fs.Bool("mutate", false, "scribble over shared slices")
	id := fs.String("id", "replay", "case id")
	fs.Parse(args)
	e := &Exec{Opts: ExecOpts{Mutate: *mutate}}
	final := e.Run(parseCase(*text))
	for k, o := range final {
		fmt.Printf("%s\t%d\t%s\n", *id, k, o)
	}
}

func main() {
	if len(os.Args) < 2 {
		fmt.Fprintln(os.Stderr, "usage: corr gen|cmp|run|worker ...")
		os.Exit(2)
	}
	switch os.Args[1] {
	case "gen":
		cmdGen(os.Args[2:])
	case "cmp":
		cmdCmp(os.Args[2:])
	case "run":
		cmdRun(os.Args[2:])
	default:
		if fn, ok := extraCmds[os.Args[1]]; ok {
			fn(os.Args[2:])
			return
		}
		fmt.Fprintln(os.Stderr, "unknown command", os.Args[1])
		os.Exit(2)
	}
}

var extraCmds = map[string]func([]string){}
