package main

// exec.go — runs a history on the real library and prints, per pool entry, the
// same observation line the Coq model prints (coq/Api.v, obs_entry), except
// that String() output is given as text ("x:hex") where the model gives pieces.

import (
	"bytes"
	"fmt"
	"math"
	"strings"
	"time"

	"github.com/wolimst/lib-secs2-hsms-go/pkg/ast"
	"github.com/wolimst/lib-secs2-hsms-go/pkg/parser/hsms"
	"github.com/wolimst/lib-secs2-hsms-go/pkg/parser/sml"
)

type panicked struct{ msg string }
type failed struct{}
type hung struct{}
type skipped struct{}
type smlRes struct {
	msgs        []*ast.DataMessage
	errs, warns []string
}
type lexRes struct {
	input string
	toks  []sml.VerifToken
}
type headerRes struct {
	b  []byte
	ok bool
}

// ExecOpts: when Mutate is set, every slice or map handed to the library and
// every slice it returns is overwritten in place afterwards (C11).
type ExecOpts struct {
	Mutate    bool
	NoObserve bool // build the objects only: no observer is ever called on them (race driver, cold start)
}

type Exec struct {
	Pool    []interface{}
	Early   []string // observation of each entry right after its creation
	Opts    ExecOpts
	Notes   []string // arguments found modified by the call they were passed to
	scratch [][]byte
	lent    [][2][]byte
}

func sameMap(a, b map[string]interface{}) (eq bool) {
	defer func() {
		if recover() != nil {
			eq = true // values that cannot be compared: no claim
		}
	}()
	if len(a) != len(b) {
		return false
	}
	for k, v := range a {
		w, ok := b[k]
		if !ok {
			return false
		}
		if f, isF := v.(float64); isF && f != f {
			if g, isG := w.(float64); isG && g != g {
				continue
			}
		}
		if f, isF := v.(float32); isF && f != f {
			if g, isG := w.(float32); isG && g != g {
				continue
			}
		}
		if v != w {
			return false
		}
	}
	return true
}

func copyMap(m map[string]interface{}) map[string]interface{} {
	c := make(map[string]interface{}, len(m))
	for k, v := range m {
		c[k] = v
	}
	return c
}

func goInt(a Arg) interface{} {
	switch a.IK {
	case KInt:
		return int(a.I)
	case KInt8:
		return int8(a.I)
	case KInt16:
		return int16(a.I)
	case KInt32:
		return int32(a.I)
	case KInt64:
		return int64(a.I)
	case KUint:
		return uint(a.U)
	case KUint8:
		return uint8(a.U)
	case KUint16:
		return uint16(a.U)
	case KUint32:
		return uint32(a.U)
	case KUint64:
		return uint64(a.U)
	}
	panic("bad int kind")
}

type otherType struct{ x int }

func (e *Exec) goArg1(a Arg) (interface{}, bool) {
	switch a.T {
	case 'i':
		return goInt(a), true
	case '4':
		return math.Float32frombits(uint32(a.U)), true
	case '8':
		return math.Float64frombits(a.U), true
	case 'b':
		return a.B, true
	case 's':
		return string(a.S), true
	case 'r':
		if a.Ref < 0 || a.Ref >= len(e.Pool) {
			return nil, false
		}
		it, ok := e.Pool[a.Ref].(ast.ItemNode)
		if !ok {
			return nil, false
		}
		return it, true
	case 'o':
		// a value of a type no factory knows: a struct, or (every other entry) the nil interface
		if len(e.Pool)%2 == 1 {
			return nil, true
		}
		return otherType{1}, true
	}
	return nil, false
}

func (e *Exec) goArgs(as []Arg) ([]interface{}, bool) {
	var r []interface{}
	for _, a := range as {
		if a.T == '*' {
			v, ok := e.goArg1(*a.Sub)
			if !ok {
				return nil, false
			}
			for i := int64(0); i < a.N; i++ {
				r = append(r, v)
			}
			continue
		}
		v, ok := e.goArg1(a)
		if !ok {
			return nil, false
		}
		r = append(r, v)
	}
	return r, true
}

func (e *Exec) goMap(m []KV) (map[string]interface{}, bool) {
	r := map[string]interface{}{}
	for _, kv := range m {
		v, ok := e.goArg1(kv.V)
		if !ok {
			return nil, false
		}
		r[string(kv.K)] = v
	}
	return r, true
}

func (e *Exec) item(i int) (ast.ItemNode, bool) {
	if i < 0 || i >= len(e.Pool) {
		return nil, false
	}
	it, ok := e.Pool[i].(ast.ItemNode)
	return it, ok
}

func (e *Exec) msg(i int) (*ast.DataMessage, bool) {
	if i < 0 || i >= len(e.Pool) {
		return nil, false
	}
	m, ok := e.Pool[i].(*ast.DataMessage)
	return m, ok
}

// a private copy the library may keep or not; the original is scribbled over later
func (e *Exec) lend(b []byte) []byte {
	if len(b) == 0 {
		return nil // "no bytes" is said with a nil slice
	}
	c := make([]byte, len(b))
	copy(c, b)
	if e.Opts.Mutate {
		e.scratch = append(e.scratch, c)
	}
	e.lent = append(e.lent, [2][]byte{b, c})
	return c
}

func scribble(b []byte) {
	for i := range b {
		b[i] ^= 0x5a
	}
}

func (e *Exec) ofParse(m ast.HSMSMessage, ok bool) interface{} {
	if !ok {
		return failed{}
	}
	return m
}

func (e *Exec) evalStep(s Step) (res interface{}) {
	defer func() {
		if r := recover(); r != nil {
			res = panicked{fmt.Sprint(r)}
		}
	}()
	switch s.Op {
	case "NL", "NB", "NO", "NI", "NU", "NF":
		args, ok := e.goArgs(s.Args)
		if !ok {
			return skipped{}
		}
		var it ast.ItemNode
		switch s.Op {
		case "NL":
			it = ast.NewListNode(args...)
		case "NB":
			it = ast.NewBinaryNode(args...)
		case "NO":
			it = ast.NewBooleanNode(args...)
		case "NI":
			it = ast.NewIntNode(s.W, args...)
		case "NU":
			it = ast.NewUintNode(s.W, args...)
		case "NF":
			it = ast.NewFloatNode(s.W, args...)
		}
		if e.Opts.Mutate {
			for i := range args {
				args[i] = "mutated_by_harness"
			}
		}
		return it
	case "NA":
		return ast.NewASCIINode(string(s.S))
	case "NAR":
		return ast.NewASCIINode(strings.Repeat(string([]byte{s.B1}), int(s.N)))
	case "NAV":
		return ast.NewASCIINodeVariable(string(s.Name), int(s.Mn), int(s.Mx))
	case "NE":
		return ast.NewEmptyItemNode()
	case "FI":
		it, ok := e.item(s.Ref)
		m, ok2 := e.goMap(s.Map)
		if !ok || !ok2 {
			return skipped{}
		}
		snap := copyMap(m)
		r := func() (r interface{}) {
			defer func() {
				if !sameMap(m, snap) {
					e.Notes = append(e.Notes, fmt.Sprintf("step %d: FillVariables modified the map it was given: %d keys before, %d after", len(e.Pool), len(snap), len(m)))
				}
			}()
			return it.FillVariables(m)
		}()
		if e.Opts.Mutate {
			for k := range m {
				m[k] = "mutated_by_harness"
			}
			m["extra_key_added_by_harness"] = 1
		}
		return r
	case "NM":
		it, ok := e.item(s.Ref)
		if !ok {
			return skipped{}
		}
		return ast.NewDataMessage(string(s.Name), s.Stream, s.Func, s.WBit, string(s.Dir), it)
	case "NH":
		it, ok := e.item(s.Ref)
		if !ok {
			return skipped{}
		}
		return ast.NewHSMSDataMessage(string(s.Name), s.Stream, s.Func, s.WBit, string(s.Dir), it, s.Sid, e.lend(s.Sys))
	case "SW":
		m, ok := e.msg(s.Ref)
		if !ok {
			return skipped{}
		}
		return m.SetWaitBit(s.B)
	case "SS":
		m, ok := e.msg(s.Ref)
		if !ok {
			return skipped{}
		}
		return m.SetSessionIDAndSystemBytes(s.Sid, e.lend(s.Sys))
	case "FM":
		m, ok := e.msg(s.Ref)
		fm, ok2 := e.goMap(s.Map)
		if !ok || !ok2 {
			return skipped{}
		}
		snap := copyMap(fm)
		r := func() (r interface{}) {
			defer func() {
				if !sameMap(fm, snap) {
					e.Notes = append(e.Notes, fmt.Sprintf("step %d: FillVariables modified the map it was given: %d keys before, %d after", len(e.Pool), len(snap), len(fm)))
				}
			}()
			return m.FillVariables(fm)
		}()
		if e.Opts.Mutate {
			for k := range fm {
				fm[k] = "mutated_by_harness"
			}
		}
		return r
	case "HP":
		return e.ofParse(hsms.Parse(e.lend(s.S)))
	case "RP":
		if s.Ref < 0 || s.Ref >= len(e.Pool) {
			return skipped{}
		}
		h, ok := e.Pool[s.Ref].(ast.HSMSMessage)
		if !ok {
			return skipped{}
		}
		b := h.ToBytes()
		r := e.ofParse(hsms.Parse(b))
		if e.Opts.Mutate {
			// written over once the result has been observed for the first time
			e.scratch = append(e.scratch, b)
		}
		return r
	case "CN":
		return ast.NewHSMSControlMessage(e.lend(s.S))
	case "CSQ":
		return ast.NewHSMSMessageSelectReq(uint16(s.Sid), e.lend(s.Sys))
	case "CDQ":
		return ast.NewHSMSMessageDeselectReq(uint16(s.Sid), e.lend(s.Sys))
	case "CPQ":
		return ast.NewHSMSMessageSeparateReq(uint16(s.Sid), e.lend(s.Sys))
	case "CLQ":
		return ast.NewHSMSMessageLinktestReq(e.lend(s.S))
	case "CRJ":
		return ast.NewHSMSMessageRejectReq(uint16(s.Sid), s.B1, s.B2, e.lend(s.Sys), s.B3)
	case "CSR", "CDR", "CLR":
		if s.Ref < 0 || s.Ref >= len(e.Pool) {
			return skipped{}
		}
		h, ok := e.Pool[s.Ref].(ast.HSMSMessage)
		if !ok {
			return skipped{}
		}
		switch s.Op {
		case "CSR":
			return ast.NewHSMSMessageSelectRsp(h, s.B1)
		case "CDR":
			return ast.NewHSMSMessageDeselectRsp(h, s.B1)
		default:
			return ast.NewHSMSMessageLinktestRsp(h)
		}
	case "HB":
		b, ok := ast.VerifHeaderBytes(string(s.S), int(s.N))
		// the pool keeps a copy; what the library handed out is the caller's and is written over afterwards (Mutate)
		e.scratch = append(e.scratch, b)
		return headerRes{append([]byte(nil), b...), ok}
	case "SP":
		// a watchdog: a parse that never returns is an observation ("G"), not a dead harness
		type out struct {
			r   smlRes
			pan interface{}
		}
		ch := make(chan out, 1)
		go func() {
			defer func() {
				if r := recover(); r != nil {
					ch <- out{pan: r}
				}
			}()
			ms, errs, warns := sml.Parse(string(s.S))
			ch <- out{r: smlRes{ms, errs, warns}}
		}()
		select {
		case o := <-ch:
			if o.pan != nil {
				panic(o.pan)
			}
			return o.r
		case <-time.After(20 * time.Second):
			return hung{}
		}
	case "SX":
		return lexRes{string(s.S), sml.VerifLex(string(s.S))}
	case "PK":
		if s.Ref < 0 || s.Ref >= len(e.Pool) {
			return skipped{}
		}
		r, ok := e.Pool[s.Ref].(smlRes)
		if !ok || s.Idx < 0 || s.Idx >= len(r.msgs) {
			return skipped{}
		}
		return r.msgs[s.Idx]
	}
	panic("exec: unknown op " + s.Op)
}

func namesField(ns []string) string {
	if len(ns) == 0 {
		return "-"
	}
	parts := make([]string, len(ns))
	for i, n := range ns {
		parts[i] = hx([]byte(n))
	}
	return strings.Join(parts, ",")
}

// observe prints one entry. With Mutate, every slice obtained from the library
// is scribbled over after it has been rendered.
func (e *Exec) observe(x interface{}) string {
	switch v := x.(type) {
	case panicked:
		return "P"
	case failed:
		return "N"
	case hung:
		return "G"
	case skipped:
		return "X"
	case smlRes:
		return fmt.Sprintf("S n=%d errs=%s warns=%s", len(v.msgs), diagsField(v.errs), diagsField(v.warns))
	case lexRes:
		return "T toks=" + tokensField(v.toks)
	case headerRes:
		if !v.ok {
			return "H bytes=err"
		}
		return "H bytes=" + hx(v.b)
	case *ast.DataMessage:
		vars := v.Variables()
		bs := v.ToBytes()
		sys := v.SystemBytes()
		s := fmt.Sprintf("M name=%s stream=%d function=%d wbit=%s dir=%s sid=%d sys=%s header=%s vars=%s bytes=%s str=x:%s",
			hx([]byte(v.Name())), v.StreamCode(), v.FunctionCode(), hx([]byte(v.WaitBit())), hx([]byte(v.Direction())),
			v.SessionID(), hx(sys), hx([]byte(v.Header())), namesField(vars), hx(bs), hx([]byte(v.String())))
		if v.Type() != "data message" {
			s += " type=" + hx([]byte(v.Type()))
		}
		if e.Opts.Mutate {
			scribble(bs)
			scribble(sys)
			for i := range vars {
				vars[i] = "mutated_by_harness"
			}
		}
		return s
	case *ast.ControlMessage:
		bs := v.ToBytes()
		s := fmt.Sprintf("C type=%s bytes=%s", hx([]byte(v.Type())), hx(bs))
		if e.Opts.Mutate {
			scribble(bs)
		}
		return s
	case ast.ItemNode:
		vars := v.Variables()
		bs := v.ToBytes()
		s := fmt.Sprintf("I str=x:%s vars=%s size=%d bytes=%s", hx([]byte(fmt.Sprintf("%v", v))), namesField(vars), v.Size(), hx(bs))
		if a, ok := v.(*ast.ASCIINode); ok {
			mn, mx := a.FillInStringLength()
			s += fmt.Sprintf(" min=%d max=%d", mn, mx)
		}
		if e.Opts.Mutate {
			scribble(bs)
			for i := range vars {
				vars[i] = "mutated_by_harness"
			}
		}
		return s
	}
	return fmt.Sprintf("? %T", x)
}

// Run executes the history; the result has one observation per pool entry,
// taken at the very end.
func (e *Exec) Run(steps []Step) []string {
	for _, s := range steps {
		r := e.evalStep(s)
		for _, pr := range e.lent {
			if !bytes.Equal(pr[0], pr[1]) {
				e.Notes = append(e.Notes, fmt.Sprintf("step %d: a byte slice passed as an argument was modified by the call", len(e.Pool)))
			}
		}
		e.lent = e.lent[:0]
		e.Pool = append(e.Pool, r)
		if e.Opts.NoObserve {
			continue
		}
		e.Early = append(e.Early, e.observe(r))
		if e.Opts.Mutate {
			for _, b := range e.scratch {
				scribble(b)
			}
			e.scratch = e.scratch[:0]
		}
	}
	out := make([]string, len(e.Pool))
	if e.Opts.NoObserve {
		return out
	}
	for i, x := range e.Pool {
		out[i] = e.observe(x)
	}
	return out
}
