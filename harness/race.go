package main

// race.go — the dynamic half of C17: goroutines calling the library on shared
// objects under the race detector (build with -race). Every call's result is
// compared with the result of the same call made alone beforehand.
//
//   corr race -seed N -workers 32 -rounds 40 -objects 60

import (
	"flag"
	"fmt"
	"math/rand"
	"os"
	"runtime"
	"strings"
	"sync"
	"sync/atomic"

	"github.com/wolimst/lib-secs2-hsms-go/pkg/ast"
	"github.com/wolimst/lib-secs2-hsms-go/pkg/parser/hsms"
	"github.com/wolimst/lib-secs2-hsms-go/pkg/parser/sml"
)

func init() { extraCmds["race"] = cmdRace }

type raceOp struct {
	name string
	run  func() string
}

func safeCall(f func() string) (res string) {
	defer func() {
		if r := recover(); r != nil {
			res = "PANIC"
		}
	}()
	return f()
}

var smlTexts = []string{
	"S1F1 W H->E AreYouThere\n.",
	"S1F2 H<-E OnLineData\n<L[2]\n  <A \"MDLN\">\n  <A \"SOFTREV\">\n>\n.",
	"S6F11 W H<-E EventReport // comment\n<L\n  <U4 dataid>\n  <U4 ceid>\n  <L\n    <L\n      <U4 rptid>\n      <L\n        <A v>\n        ...\n      >\n    >\n    ...\n  >\n>\n.",
	"S2F41 [W] H->E RemoteCommand <L <A rcmd> <L <L <A cpname> <A[1..10] cpval>> ...>> .\nS2F42 H<-E <L <B 0> <L>> .",
	"S99F1 <I2 1 -2 0x7f x y> . S99F3 W <F4 1.5 -2e3 f> <.",
	"S1F3 W <L <U2 1 2 3> <BOOLEAN T F t> <F8 0.1 1e-300> <B 0xff 0b101 7> <A \"a\" 0x0A \"b\"> <I8 -9223372036854775808>> .",
}

// virginPhase: the very first calls into the library made by this process are made by all goroutines at once
// (lazily built package-level state: compiled patterns, tables, caches).  Nothing of the library has run before.
func virginPhase(workers int) {
	type vop struct {
		name string
		run  func() string
	}
	var vops []vop
	for i, t := range smlTexts {
		t := t
		vops = append(vops, vop{fmt.Sprintf("virgin.sml%d", i), func() string {
			ms, errs, warns := sml.Parse(t)
			s := fmt.Sprint(len(ms), errs, warns)
			for _, m := range ms {
				s += "|" + m.String()
			}
			return s
		}})
	}
	vops = append(vops,
		vop{"virgin.list", func() string { return fmt.Sprint(ast.NewListNode("x", ast.NewUintNode(1, 7, "v[3]"), "...")) }},
		vop{"virgin.asciivar", func() string { return fmt.Sprint(ast.NewASCIINodeVariable("name", 0, 5)) }},
		vop{"virgin.fill", func() string {
			return fmt.Sprint(ast.NewListNode("a", "...").FillVariables(map[string]interface{}{"...": 2}))
		}},
		vop{"virgin.hsms", func() string {
			m, ok := hsms.Parse([]byte{0, 0, 0, 13, 0, 1, 0x81, 1, 0, 0, 0, 0, 0, 1, 0xa5, 1, 9})
			if !ok {
				return "FAIL"
			}
			return fmt.Sprintf("%x", m.ToBytes())
		}},
		vop{"virgin.hsmsbad", func() string {
			_, ok := hsms.Parse([]byte{0, 0, 0, 16, 0, 1, 1, 1, 0, 0, 0, 0, 0, 1, 0x91, 4, 0x7f, 0xc0, 0, 0})
			return fmt.Sprint(ok)
		}})
	got := make([][]string, workers)
	start := make(chan struct{})
	var wg sync.WaitGroup
	for w := 0; w < workers; w++ {
		wg.Add(1)
		w := w
		got[w] = make([]string, len(vops))
		go func() {
			defer wg.Done()
			<-start
			for k := range vops {
				i := (k + w%3) % len(vops)
				got[w][i] = safeCall(vops[i].run)
			}
		}()
	}
	close(start)
	wg.Wait()
	for i, op := range vops {
		exp := safeCall(op.run)
		for w := range got {
			if got[w][i] != exp {
				fmt.Printf("race ops=%d calls=%d mismatches=1\n", len(vops), len(vops)*workers)
				fmt.Println("MISMATCH", fmt.Sprintf("%s: alone %q, concurrently (first calls of the process) %q", op.name, short(exp), short(got[w][i])))
				os.Exit(3)
			}
		}
	}
}

func cmdRace(args []string) {
	fs := flag.NewFlagSet("race", flag.ExitOnError)
	seed := fs.Int64("seed", 1, "seed")
	workers := fs.Int("workers", 32, "goroutines")
	rounds := fs.Int("rounds", 30, "rounds per goroutine")
	nobj := fs.Int("objects", 40, "histories to build objects from")
	cold := fs.Bool("cold", false, "no sequential pass first: the very first use of every code path happens concurrently")
	fs.Parse(args)
	if *cold {
		// before anything else in this process has touched the library
		virginPhase(*workers)
	}
	r := rand.New(rand.NewSource(*seed))
	var ops []raceOp
	add := func(name string, f func() string) { ops = append(ops, raceOp{name, f}) }
	// shared objects from generated histories
	for h := 0; h < *nobj; h++ {
		g := newGen(r, false, map[string]int{})
		maxLeaf := 6
		if h%8 == 5 {
			maxLeaf = 1500 // a few large objects: what is kept for large encodings only
		}
		t := g.tree(treeOpts{depth: 1 + g.pick(3), vars: h%8 != 5, ellipsis: h%8 != 5 && g.chance(0.3), maxLeaf: maxLeaf})
		if g.chance(0.6) {
			g.anyMsg(t)
		}
		e := &Exec{}
		e.Run(g.steps)
		if *cold {
			// the same objects built a second time and never looked at: their first observation happens concurrently
			e2 := &Exec{Opts: ExecOpts{NoObserve: true}}
			e2.Run(g.steps)
			for i, x := range e2.Pool {
				i, x := i, x
				switch x.(type) {
				case ast.ItemNode, *ast.DataMessage:
					add(fmt.Sprintf("fresh%d.%d.obs", h, i), func() string { return e2.observe(x) })
				}
			}
		}
		for i, x := range e.Pool {
			i, x := i, x
			switch v := x.(type) {
			case ast.ItemNode:
				add(fmt.Sprintf("h%d.%d.obs", h, i), func() string { return e.observe(v) })
				vars := v.Variables()
				if len(vars) > 0 {
					// several different fills of the same shared item
					for k := 0; k < 3; k++ {
						m := map[string]interface{}{}
						for _, n := range vars {
							if len(n) >= 3 && n[:3] == "..." {
								m[n] = k
							} else {
								m[n] = k + 1
							}
						}
						add(fmt.Sprintf("h%d.%d.fill%d", h, i, k), func() string {
							return e.observe(v.FillVariables(m))
						})
					}
				}
			case *ast.DataMessage:
				add(fmt.Sprintf("h%d.%d.obs", h, i), func() string { return e.observe(v) })
				add(fmt.Sprintf("h%d.%d.producers", h, i), func() string {
					a := v.SetWaitBit(true)
					b := a.SetSessionIDAndSystemBytes(17, []byte{1, 2, 3, 4})
					return e.observe(a) + "|" + e.observe(b)
				})
				vars := v.Variables()
				for k := 0; k < 2; k++ {
					m := map[string]interface{}{}
					for _, n := range vars {
						m[n] = k
					}
					add(fmt.Sprintf("h%d.%d.fillmsg%d", h, i, k), func() string { return e.observe(v.FillVariables(m)) })
				}
			}
		}
	}
	// both parsers
	for i, t := range smlTexts {
		t := t
		add(fmt.Sprintf("sml%d", i), func() string {
			ms, errs, warns := sml.Parse(t)
			s := fmt.Sprint(len(ms), errs, warns)
			for _, m := range ms {
				s += "|" + m.String()
			}
			return s
		})
	}
	// results kept while the parser is used again (by this goroutine and by the others): a result is the caller's
	for i := range smlTexts {
		t, u := smlTexts[i], smlTexts[(i+1)%len(smlTexts)]
		add(fmt.Sprintf("smlkeep%d", i), func() string {
			ms, errs, warns := sml.Parse(t)
			sml.Parse(u)
			runtime.Gosched()
			sml.Parse(u)
			s := fmt.Sprint(len(ms), errs, warns)
			for _, m := range ms {
				s += "|" + m.String()
			}
			return s
		})
	}
	for i := 0; i < 20; i++ {
		g := newGen(r, false, map[string]int{})
		it := g.tree(treeOpts{depth: g.pick(3), maxLeaf: 20})
		m := g.hsmsMsg(it)
		e := &Exec{}
		e.Run(g.steps)
		if dm, ok := e.Pool[m].(*ast.DataMessage); ok {
			b := dm.ToBytes()
			add(fmt.Sprintf("hsms%d", i), func() string {
				x, ok := hsms.Parse(b)
				if !ok {
					return "FAIL"
				}
				return e.observe(x)
			})
		}
	}
	// refused inputs too: every way the decoder has of saying no
	for i, b := range [][]byte{
		{0, 0, 0, 10, 0, 1, 0x81, 2, 0, 0, 0, 0, 0, 1},                         // W on an even function
		{0, 0, 0, 13, 0, 1, 1, 1, 0, 0, 0, 0, 0, 1, 0x41, 1, 0xe9},             // text that is not ASCII
		{0, 0, 0, 16, 0, 1, 1, 1, 0, 0, 0, 0, 0, 1, 0x91, 4, 0x7f, 0xc0, 0, 0}, // NaN
		{0, 0, 0, 16, 0, 1, 1, 1, 0, 0, 0, 0, 0, 1, 0x91, 4, 0xff, 0x80, 0, 0}, // -Inf
		{0, 0, 0, 12, 0, 1, 1, 1, 0, 0, 0, 0, 0, 1, 1, 3},                      // a list cut short
		{0, 0, 0, 13, 0, 1, 1, 1, 0, 0, 0, 0, 0, 1, 0xa9, 3, 1},                // a value cut short
		{0, 0, 0, 14, 0, 1, 1, 1, 0, 0, 0, 0, 0, 1, 0xa9, 1, 1, 9},             // trailing byte
		{0, 0, 0, 12, 0, 1, 1, 1, 0, 0, 0, 0, 0, 1, 0xfd, 0},                   // unknown format
		{0, 0, 0, 9, 0, 1, 1, 1, 0, 0, 0, 0, 0},                                // short header
	} {
		b := b
		add(fmt.Sprintf("hsmsbad%d", i), func() string {
			x, ok := hsms.Parse(b)
			return fmt.Sprint(ok, x == nil)
		})
	}
	if *cold {
		// first uses race with each other (lazy initialisation, caches filled on demand): every
		// goroutine starts at the same moment on the same operations, results are compared afterwards
		got := make([][]string, *workers)
		var parserOps []int
		for i, op := range ops {
			if strings.HasPrefix(op.name, "fresh") {
				parserOps = append(parserOps, i)
			}
		}
		for i, op := range ops {
			if strings.HasPrefix(op.name, "sml") || strings.HasPrefix(op.name, "hsms") {
				parserOps = append(parserOps, i)
			}
		}
		start := make(chan struct{})
		var wg sync.WaitGroup
		for w := 0; w < *workers; w++ {
			wg.Add(1)
			w := w
			got[w] = make([]string, len(ops))
			go func() {
				defer wg.Done()
				<-start
				// never-observed objects and the parsers first, every goroutine at the same moment (neighbouring
				// goroutines start one operation apart, so each operation is run by several at once), then everything else
				for k := 0; k < len(parserOps); k++ {
					i := parserOps[(k+w%2)%len(parserOps)]
					got[w][i] = safeCall(ops[i].run)
				}
				for k := 0; k < len(ops); k++ {
					i := (k + w*7) % len(ops)
					if got[w][i] == "" {
						got[w][i] = safeCall(ops[i].run)
					}
				}
			}()
		}
		close(start)
		wg.Wait()
		mism := 0
		first := ""
		for i, op := range ops {
			exp := safeCall(op.run)
			for w := range got {
				if got[w][i] != exp {
					mism++
					if first == "" {
						first = fmt.Sprintf("%s: alone %q, concurrently (cold) %q", op.name, short(exp), short(got[w][i]))
					}
				}
			}
		}
		fmt.Printf("race ops=%d calls=%d mismatches=%d\n", len(ops), len(ops)*(*workers), mism)
		if mism > 0 {
			fmt.Println("MISMATCH", first)
			os.Exit(3)
		}
		return
	}
	// alone
	expected := make([]string, len(ops))
	for i, op := range ops {
		expected[i] = safeCall(op.run)
	}
	// together
	var wg sync.WaitGroup
	var mismatches int64
	var calls int64
	var firstMu sync.Mutex
	first := ""
	for w := 0; w < *workers; w++ {
		wg.Add(1)
		wr := rand.New(rand.NewSource(*seed*1000 + int64(w)))
		go func() {
			defer wg.Done()
			for k := 0; k < *rounds; k++ {
				for _, i := range wr.Perm(len(ops)) {
					got := safeCall(ops[i].run)
					atomic.AddInt64(&calls, 1)
					if got != expected[i] {
						atomic.AddInt64(&mismatches, 1)
						firstMu.Lock()
						if first == "" {
							first = fmt.Sprintf("%s: alone %q, concurrently %q", ops[i].name, short(expected[i]), short(got))
						}
						firstMu.Unlock()
					}
				}
			}
		}()
	}
	wg.Wait()
	fmt.Printf("race ops=%d calls=%d mismatches=%d\n", len(ops), calls, mismatches)
	if mismatches > 0 {
		fmt.Println("MISMATCH", first)
		os.Exit(3)
	}
}
