package main

// suites_hostile.go — C07: hostile inputs for the HSMS decoder. The same
// inputs go (a) through the model as HP steps (accept/reject and result must
// agree) and (b) through a worker subprocess that measures TotalAlloc.

import (
	"bufio"
	"encoding/hex"
	"flag"
	"fmt"
	"math/rand"
	"os"
)

func init() {
	suites["C07"] = suiteC07
	extraCmds["hostile-hsms"] = cmdHostileHsms
}

func frame(text []byte) []byte {
	n := len(text) + 10
	in := []byte{byte(n >> 24), byte(n >> 16), byte(n >> 8), byte(n), 0, 1, 1, 1, 0, 0, 0, 0, 0, 1}
	return append(in, text...)
}

var allFormats = []byte{0o00, 0o10, 0o11, 0o20, 0o30, 0o31, 0o32, 0o34, 0o40, 0o44, 0o50, 0o51, 0o52, 0o54, 0o12, 0o77}

func hostileHsms(r *rand.Rand, thorough bool, emit func(kind string, in []byte)) {
	// every kind of header in front of well-formed and empty texts: wait bit on even and odd functions, stream
	// with and without the top bit, every PType/SType pair of the control messages and a few undefined ones
	for _, b2 := range []byte{0x00, 0x01, 0x7f, 0x80, 0x81, 0xff} {
		for _, fn := range []byte{0, 1, 2, 3, 254, 255} {
			for _, ps := range [][2]byte{{0, 0}, {0, 1}, {0, 2}, {0, 5}, {0, 6}, {0, 9}, {0, 7}, {0, 10}, {1, 0}, {1, 1}, {255, 255}} {
				for _, text := range [][]byte{nil, {0xa5, 1, 7}, {1, 1, 0x41, 2, 'o', 'k'}, {0x41}} {
					n := len(text) + 10
					in := []byte{byte(n >> 24), byte(n >> 16), byte(n >> 8), byte(n), 0x12, 0x34, b2, fn, ps[0], ps[1], 9, 8, 7, 6}
					emit("header-grid", append(in, text...))
				}
			}
		}
	}
	// short inputs declaring huge lengths, at every nesting depth
	for depth := 0; depth <= 8; depth++ {
		for _, f := range allFormats {
			for _, lb := range [][]byte{{0xff}, {0xff, 0xff}, {0xff, 0xff, 0xff}, {0x7f, 0xff, 0xff}, {0x01, 0x00, 0x00}, {0x00, 0x00, 0x08}} {
				for _, have := range []int{0, 1, 7, 8, 9} {
					var text []byte
					for d := 0; d < depth; d++ {
						text = append(text, 1, 1)
					}
					text = append(text, f<<2|byte(len(lb)))
					text = append(text, lb...)
					for i := 0; i < have; i++ {
						text = append(text, byte(0x41+i))
					}
					emit("huge-length", frame(text))
				}
			}
		}
	}
	// float items holding every non-finite pattern (refused, never a crash), at several depths and positions
	for depth := 0; depth <= 3; depth++ {
		for _, pat := range [][]byte{{0x7f, 0x80, 0, 0}, {0xff, 0x80, 0, 0}, {0x7f, 0xc0, 0, 0}, {0xff, 0xc0, 0, 1}, {0x7f, 0x80, 0, 1},
			{0x7f, 0xf0, 0, 0, 0, 0, 0, 0}, {0xff, 0xf0, 0, 0, 0, 0, 0, 0}, {0x7f, 0xf8, 0, 0, 0, 0, 0, 0}, {0xff, 0xf8, 0, 0, 0, 0, 0, 1}, {0xff, 0xf0, 0, 0, 0, 0, 0, 1}} {
			code := byte(0o44)
			if len(pat) == 8 {
				code = 0o40
			}
			for _, lead := range []int{0, 1, 3} {
				var text []byte
				for d := 0; d < depth; d++ {
					text = append(text, 1, 1)
				}
				text = append(text, code<<2|1, byte(len(pat)*(lead+1)))
				for i := 0; i < lead; i++ {
					text = append(text, make([]byte, len(pat))...)
				}
				text = append(text, pat...)
				emit("non-finite", frame(text))
			}
		}
	}
	// lists declaring huge counts with a few real children
	for _, lb := range [][]byte{{0xff}, {0xff, 0xff}, {0xff, 0xff, 0xff}, {0x00, 0x01, 0x00}} {
		for k := 0; k < 6; k++ {
			text := append([]byte{byte(len(lb))}, lb...)
			for i := 0; i < k; i++ {
				text = append(text, 0xa5, 1, byte(i))
			}
			emit("huge-count", frame(text))
		}
	}
	// a chain of nested lists, each declaring as many elements as bytes remain
	for _, n := range []int{64, 1024, 8192, 16384} {
		if n > 8192 && !thorough {
			continue
		}
		for _, k := range []int{1, 2, 3} {
			text := make([]byte, 0, n)
			for len(text)+1+k <= n {
				rem := n - len(text) - 1 - k
				if k == 1 && rem > 255 {
					rem = 255
				}
				if k == 2 && rem > 65535 {
					rem = 65535
				}
				text = append(text, byte(k))
				for i := k - 1; i >= 0; i-- {
					text = append(text, byte(rem>>(8*i)))
				}
			}
			for len(text) < n {
				text = append(text, 0)
			}
			emit("greedy-chain", frame(text))
		}
	}
	// deep honest nesting (time is quadratic in depth: kept moderate)
	for _, d := range []int{100, 300, 1000, 3000} {
		var text []byte
		for i := 0; i < d; i++ {
			text = append(text, 1, 1)
		}
		text = append(text, 0xa5, 1, 7)
		emit("deep", frame(text))
		emit("deep-truncated", frame(text[:len(text)-3]))
	}
	// long valid items of every format
	sizes := []int{1 << 10, 1 << 16, 1 << 20}
	if thorough {
		sizes = append(sizes, 1<<23, 16777215)
	}
	for _, f := range allFormats[1:14] {
		for _, n := range sizes {
			if n > 1<<16 && f != 0o20 && f != 0o10 && !thorough {
				continue
			}
			n8 := n &^ 7
			text := []byte{f<<2 | 3, byte(n8 >> 16), byte(n8 >> 8), byte(n8)}
			pay := make([]byte, n8)
			for i := range pay {
				pay[i] = byte(i*7) & 0x7f
				if f == 0o40 || f == 0o44 {
					pay[i] &= 0x3f
				}
			}
			text = append(text, pay...)
			emit("long-item", frame(text))
			emit("long-item-truncated", frame(text[:len(text)/2]))
		}
	}
	// a wide list
	for _, n := range []int{255, 256, 65535, 70000} {
		text := []byte{3, byte(n >> 16), byte(n >> 8), byte(n)}
		for i := 0; i < n; i++ {
			text = append(text, 0x25, 1, byte(i))
		}
		emit("wide-list", frame(text))
	}
	// random bytes, framed and not
	nr := 3000
	if thorough {
		nr = 400000
	}
	for i := 0; i < nr; i++ {
		n := r.Intn(64)
		b := make([]byte, n)
		r.Read(b)
		switch r.Intn(3) {
		case 0:
			emit("random", b)
		case 1:
			emit("random-framed", frame(b))
		default:
			// structured soup: format bytes and small lengths
			var text []byte
			for len(text) < n {
				text = append(text, allFormats[r.Intn(14)]<<2|byte(1+r.Intn(3)), byte(r.Intn(6)))
			}
			emit("soup", frame(text))
		}
	}
}

func suiteC07(c *Ctx) {
	var steps []Step
	size := 0
	hostileHsms(c.r, c.thorough, func(kind string, in []byte) {
		c.stats["c07:"+kind]++
		if len(in) > 200000 || ((kind == "deep" || kind == "deep-truncated" || kind == "greedy-chain") && len(in) > 1500) {
			// large inputs are measured by the worker only: the model side of an
			// accepted 1 MB item costs minutes
			c.stats["c07:worker-only"]++
			return
		}
		steps = append(steps, Step{Op: "HP", S: in})
		size += len(in)
		if len(steps) >= 200 || size > 300000 {
			c.emit(Case{"hostile", steps, false})
			steps, size = nil, 0
		}
	})
	if len(steps) > 0 {
		c.emit(Case{"hostile", steps, false})
	}
}

func cmdHostileHsms(args []string) {
	fs := flag.NewFlagSet("hostile-hsms", flag.ExitOnError)
	seed := fs.Int64("seed", 1, "seed")
	tier := fs.String("tier", "quick", "tier")
	fs.Parse(args)
	w := bufio.NewWriterSize(os.Stdout, 1<<20)
	defer w.Flush()
	r := rand.New(rand.NewSource(*seed*7919 + 3))
	hostileHsms(r, *tier == "thorough", func(kind string, in []byte) {
		if len(in) == 0 {
			fmt.Fprintf(w, "%s -\n", kind)
			return
		}
		fmt.Fprintf(w, "%s %s\n", kind, hex.EncodeToString(in))
	})
}
