package main

// suites_ast.go — suites C12 (constructors), C18 (producers), C09 (fill),
// C10 (ellipsis), C16 (variable listing), C11 (immutability / aliasing).

import (
	"bytes"
	"fmt"
	"math"
	"math/big"
	"regexp"
	"strings"

	"github.com/wolimst/lib-secs2-hsms-go/pkg/ast"
)

func init() {
	suites["C12"] = suiteC12
	monitors["C12"] = monitorC12
	suites["C18"] = suiteC18
	monitors["C18"] = monitorC18
	suites["C09"] = suiteC09
	monitors["C09"] = monitorC09
	suites["C10"] = suiteC10
	monitors["C10"] = monitorC10
	suites["C16"] = suiteC16
	monitors["C16"] = monitorC16
	suites["C11"] = suiteC11
	monitors["C11"] = monitorC11
}

// ---------- C12 ----------

type bigArg struct {
	a Arg
	v *big.Int
}

// every boundary integer in every Go type that can hold it
func boundaryInts() []bigArg {
	var out []bigArg
	seen := map[string]bool{}
	add := func(v *big.Int) {
		for k := KInt; k <= KUint64; k++ {
			var lo, hi *big.Int
			switch k {
			case KInt8:
				lo, hi = big.NewInt(math.MinInt8), big.NewInt(math.MaxInt8)
			case KInt16:
				lo, hi = big.NewInt(math.MinInt16), big.NewInt(math.MaxInt16)
			case KInt32:
				lo, hi = big.NewInt(math.MinInt32), big.NewInt(math.MaxInt32)
			case KInt, KInt64:
				lo, hi = big.NewInt(math.MinInt64), big.NewInt(math.MaxInt64)
			case KUint8:
				lo, hi = big.NewInt(0), big.NewInt(math.MaxUint8)
			case KUint16:
				lo, hi = big.NewInt(0), big.NewInt(math.MaxUint16)
			case KUint32:
				lo, hi = big.NewInt(0), big.NewInt(math.MaxUint32)
			default:
				lo, hi = big.NewInt(0), new(big.Int).SetUint64(math.MaxUint64)
			}
			if v.Cmp(lo) < 0 || v.Cmp(hi) > 0 {
				continue
			}
			key := fmt.Sprint(k, v)
			if seen[key] {
				continue
			}
			seen[key] = true
			if k >= KUint {
				out = append(out, bigArg{Arg{T: 'i', IK: k, U: v.Uint64()}, v})
			} else {
				out = append(out, bigArg{Arg{T: 'i', IK: k, I: v.Int64()}, v})
			}
		}
	}
	for _, bits := range []uint{7, 8, 15, 16, 31, 32, 53, 63, 64} {
		p := new(big.Int).Lsh(big.NewInt(1), bits)
		for d := int64(-2); d <= 2; d++ {
			add(new(big.Int).Add(p, big.NewInt(d)))
			add(new(big.Int).Add(new(big.Int).Neg(p), big.NewInt(d)))
		}
	}
	for d := int64(-3); d <= 3; d++ {
		add(big.NewInt(d))
	}
	for _, v := range []int64{100, 127, 128, 200, 255, 256, 1000, 70000} {
		add(big.NewInt(v))
	}
	return out
}

var f64Boundary = []uint64{
	0x47efffffe0000000, 0x47efffffe0000001, 0x47efffffdfffffff, 0x47effffff0000000, 0x47efffffefffffff, // around MaxFloat32
	0xc7efffffe0000000, 0xc7efffffe0000001, 0x47f0000000000000,
	0x7ff0000000000000, 0xfff0000000000000, 0x7ff8000000000001, 0x7ff0000000000001, // Inf, NaN
	0x7fefffffffffffff, 0xffefffffffffffff, 0x0000000000000001, 0x8000000000000000, 0,
	0x36a0000000000000, 0x369fffffffffffff, 0x36a0000000000001, 0x3690000000000000, 0x3690000000000001, // least float32 subnormal and its halves
	0x380fffffffffffff, 0x3810000000000000, 0x380ffffff0000000, 0x380fffffe0000000, // least normal float32
	0x3ff0000010000000, 0x3ff0000030000000, 0x3ff0000010000001, 0x3ff000002fffffff, // ties to even
	0x3fb999999999999a, 0x400921fb54442d18,
}
var f32Boundary = []uint32{0, 0x80000000, 1, 0x007fffff, 0x00800000, 0x7f7fffff, 0xff7fffff, 0x7f800000, 0xff800000, 0x7fc00000, 0x7f800001, 0x3f800000, 0x3dcccccd}

func suiteC12(c *Ctx) {
	g := c.gen()
	var steps []Step
	flush := func(label string) {
		if len(steps) > 0 {
			c.emit(Case{label, steps, false})
			steps = nil
		}
	}
	ints := boundaryInts()
	// integer-taking factories x every boundary value in every Go type
	for _, w := range []int{1, 2, 4, 8, 0, 3, 16} {
		for _, op := range []string{"NI", "NU", "NF"} {
			for _, ba := range ints {
				steps = append(steps, Step{Op: op, W: w, Args: []Arg{ba.a}})
			}
			flush("int-grid")
		}
	}
	for _, ba := range ints {
		steps = append(steps, Step{Op: "NB", Args: []Arg{ba.a}}, Step{Op: "NO", Args: []Arg{ba.a}}, Step{Op: "NL", Args: []Arg{ba.a}})
	}
	flush("int-grid")
	// floats
	for _, w := range []int{4, 8} {
		for _, b := range f64Boundary {
			steps = append(steps, Step{Op: "NF", W: w, Args: []Arg{{T: '8', U: b}}})
		}
		for _, b := range f32Boundary {
			steps = append(steps, Step{Op: "NF", W: w, Args: []Arg{{T: '4', U: uint64(b)}}})
		}
		for i := 0; i < c.scale(3000, 200000); i++ {
			switch g.pick(3) {
			case 0:
				steps = append(steps, Step{Op: "NF", W: w, Args: []Arg{{T: '8', U: g.r.Uint64()}}})
			case 1:
				steps = append(steps, Step{Op: "NF", W: w, Args: []Arg{{T: '4', U: uint64(g.r.Uint32())}}})
			default:
				// float64 values next to float32 rounding boundaries
				f := math.Float32frombits(g.r.Uint32())
				b := math.Float64bits(float64(f)) + uint64(g.pick(3)-1) + uint64(g.pick(3))<<28
				steps = append(steps, Step{Op: "NF", W: w, Args: []Arg{{T: '8', U: b}}})
			}
			if len(steps) >= 500 {
				flush("float-grid")
			}
		}
		flush("float-grid")
	}
	// wrongly typed arguments
	others := []Arg{{T: 'o'}, {T: 'b', B: true}, {T: '8', U: 0x3ff0000000000000}, {T: '4', U: 0x3f800000}, {T: 's', S: []byte("0b101")},
		{T: 's', S: []byte("0b")}, {T: 's', S: []byte("0b102")}, {T: 's', S: []byte("0b1_0")}, {T: 's', S: []byte("0b_1")}, {T: 's', S: []byte("0b1__0")},
		{T: 's', S: []byte("0b1_")}, {T: 's', S: []byte("0b100000000")}, {T: 's', S: []byte("0b11111111")}, {T: 's', S: []byte("0B1")},
		{T: 's', S: []byte("0b" + strings.Repeat("1", 64))}, {T: 's', S: []byte("0b" + strings.Repeat("1", 63))}}
	steps = append(steps, Step{Op: "NE"})
	others = append(others, Arg{T: 'r', Ref: 0})
	for _, a := range others {
		for _, op := range []string{"NI", "NU", "NF", "NB", "NO", "NL"} {
			w := 4
			steps = append(steps, Step{Op: op, W: w, Args: []Arg{a}}, Step{Op: op, W: w, Args: []Arg{{T: 's', S: []byte("v")}, a}})
		}
	}
	flush("wrong-type")
	// variable names
	var names [][]byte
	for _, n := range badNames {
		names = append(names, []byte(n))
	}
	for i := 0; i < 30; i++ {
		names = append(names, g.freshName())
	}
	names = append(names, []byte("x[0][12]"), []byte("_"), []byte("A9_z"), []byte("x[007]"), []byte("...[12]"), []byte("...[1][2]"), []byte("\xff"), []byte("a\xc3"))
	for _, n := range names {
		a := Arg{T: 's', S: n}
		for _, op := range []string{"NI", "NU", "NF", "NB", "NO"} {
			steps = append(steps, Step{Op: op, W: 4, Args: []Arg{a}}, Step{Op: op, W: 4, Args: []Arg{a, a}},
				Step{Op: op, W: 4, Args: []Arg{{T: 's', S: []byte("first")}, a}})
		}
		steps = append(steps, Step{Op: "NL", Args: []Arg{a}}, Step{Op: "NL", Args: []Arg{{T: 's', S: []byte("first")}, a}},
			Step{Op: "NL", Args: []Arg{{T: 's', S: []byte("first")}, a, a}},
			Step{Op: "NL", Args: []Arg{{T: 's', S: []byte("first")}, a, {T: 's', S: []byte("...")}}},
			Step{Op: "NL", Args: []Arg{{T: 's', S: []byte("first")}, a, {T: 's', S: []byte("...[3]")}}},
			Step{Op: "NAV", Name: n, Mn: 0, Mx: -1})
		flush("names")
	}
	// ASCII: every byte value, invalid UTF-8, bounds
	for b := 0; b < 256; b++ {
		steps = append(steps, Step{Op: "NA", S: []byte{byte(b)}}, Step{Op: "NA", S: []byte{'a', byte(b), 'z'}})
	}
	for _, s := range []string{"é", "\xc3", "\xe2\x82\xac", "ab\x80", "\xf0\x9f\x98\x80", "\xed\xa0\x80", "\xc0\x80"} {
		steps = append(steps, Step{Op: "NA", S: []byte(s)})
	}
	for _, mm := range [][2]int64{{0, -1}, {0, 0}, {1, 0}, {-1, -1}, {0, -2}, {3, 3}, {3, 2}, {2, 3}, {5, -1}, {-1, 5}, {1 << 40, -1}, {0, 1 << 40}} {
		steps = append(steps, Step{Op: "NAV", Name: []byte("s"), Mn: mm[0], Mx: mm[1]})
	}
	flush("ascii")
	// lists: duplicates across children, stray empty nodes, shared children
	{
		g2 := c.gen()
		a := g2.add(Step{Op: "NU", W: 1, Args: []Arg{{T: 's', S: []byte("x")}}})
		b := g2.add(Step{Op: "NI", W: 2, Args: []Arg{{T: 's', S: []byte("x")}}})
		d := g2.add(Step{Op: "NAV", Name: []byte("y"), Mn: 0, Mx: -1})
		e := g2.add(Step{Op: "NE"})
		r := func(i int) Arg { return Arg{T: 'r', Ref: i} }
		s := func(n string) Arg { return Arg{T: 's', S: []byte(n)} }
		g2.add(Step{Op: "NL", Args: []Arg{r(a), r(b)}})
		g2.add(Step{Op: "NL", Args: []Arg{r(a), r(a)}})
		g2.add(Step{Op: "NL", Args: []Arg{r(a), s("x")}})
		g2.add(Step{Op: "NL", Args: []Arg{r(a), s("y"), r(d)}})
		g2.add(Step{Op: "NL", Args: []Arg{r(e)}})
		g2.add(Step{Op: "NL", Args: []Arg{r(e), r(e)}})
		g2.add(Step{Op: "NL", Args: []Arg{r(e), s("z")}})
		in := g2.add(Step{Op: "NL", Args: []Arg{r(a), s("...")}})
		g2.add(Step{Op: "NL", Args: []Arg{r(in), s("..."), r(d)}})
		g2.add(Step{Op: "NL", Args: []Arg{r(in), r(in)}})
		g2.add(Step{Op: "NL", Args: []Arg{s("..."), r(a)}})
		g2.add(Step{Op: "NL", Args: []Arg{r(a), s("..."), s("...")}})
		g2.add(Step{Op: "NL", Args: []Arg{r(a), s("..."), s("...[1]")}})
		g2.add(Step{Op: "NL", Args: []Arg{r(a), s("...[0]"), r(d)}})
		c.emit(Case{"lists", g2.steps, false})
	}
	{
		// a fill is refused as the constructor refuses: the value put in place of a list variable brings a name
		// that is already there (directly, one list down, inside a message)
		g2 := c.gen()
		r := func(i int) Arg { return Arg{T: 'r', Ref: i} }
		s := func(x string) Arg { return Arg{T: 's', S: []byte(x)} }
		b := g2.add(Step{Op: "NU", W: 1, Args: []Arg{s("b")}})
		val := g2.add(Step{Op: "NI", W: 2, Args: []Arg{{T: 'i', IK: KInt, I: 3}, s("b")}})
		deep := g2.add(Step{Op: "NL", Args: []Arg{r(val)}})
		t1 := g2.add(Step{Op: "NL", Args: []Arg{s("a"), r(b)}})
		g2.add(Step{Op: "FI", Ref: t1, Map: []KV{{[]byte("a"), r(val)}}})
		g2.add(Step{Op: "FI", Ref: t1, Map: []KV{{[]byte("a"), r(deep)}}})
		inner := g2.add(Step{Op: "NL", Args: []Arg{s("a")}})
		t2 := g2.add(Step{Op: "NL", Args: []Arg{r(inner), r(b)}})
		g2.add(Step{Op: "FI", Ref: t2, Map: []KV{{[]byte("a"), r(val)}}})
		m := g2.add(Step{Op: "NM", Name: []byte("n"), Stream: 1, Func: 1, WBit: 0, Dir: []byte("H->E"), Ref: t1})
		g2.add(Step{Op: "FM", Ref: m, Map: []KV{{[]byte("a"), r(val)}}})
		g2.add(Step{Op: "FM", Ref: m, Map: []KV{{[]byte("a"), r(deep)}}})
		g2.add(Step{Op: "NL", Args: []Arg{r(val), r(b)}}) // what the constructor says to the same children
		c.emit(Case{"fill-duplicates", g2.steps, false})
	}
	// messages
	{
		g2 := c.gen()
		it := g2.add(Step{Op: "NU", W: 1, Args: []Arg{{T: 'i', IK: KInt, I: 1}}})
		vt := g2.add(Step{Op: "NU", W: 1, Args: []Arg{{T: 's', S: []byte("v")}}})
		for _, st := range []int{-1, 0, 1, 127, 128, 255, 1 << 20} {
			for _, fn := range []int{-1, 0, 1, 2, 255, 256} {
				for _, w := range []int{-1, 0, 1, 2, 3} {
					g2.add(Step{Op: "NM", Name: []byte("n"), Stream: st, Func: fn, WBit: w, Dir: []byte("H->E"), Ref: it})
					g2.add(Step{Op: "NH", Name: []byte("n"), Stream: st, Func: fn, WBit: w, Dir: []byte("H->E"), Ref: it, Sid: 1, Sys: []byte{1, 2, 3, 4}})
				}
			}
		}
		for _, sid := range []int{-2, -1, 0, 1, 65535, 65536, 1 << 30} {
			for _, sys := range [][]byte{nil, {1}, {1, 2, 3}, {1, 2, 3, 4}, {1, 2, 3, 4, 5}} {
				m := g2.add(Step{Op: "NH", Name: nil, Stream: 1, Func: 1, WBit: 1, Dir: []byte("H<-E"), Ref: it, Sid: sid, Sys: sys})
				g2.add(Step{Op: "SS", Ref: m, Sid: sid, Sys: sys})
				m2 := g2.add(Step{Op: "NM", Name: nil, Stream: 1, Func: 1, WBit: 2, Dir: []byte("H<-E"), Ref: vt})
				g2.add(Step{Op: "SS", Ref: m2, Sid: sid, Sys: sys})
			}
		}
		g2.add(Step{Op: "NH", Name: nil, Stream: 1, Func: 1, WBit: 1, Dir: []byte("H<-E"), Ref: vt, Sid: 1, Sys: []byte{1, 2, 3, 4}})
		// the wait bit set afterwards: every function parity x every state of the wait bit x both arguments
		// (a wait bit on a reply is refused whichever way it is asked for)
		for _, fn := range []int{0, 1, 2, 255} {
			for _, w := range []int{0, 1, 2} {
				if w == 1 && fn%2 == 0 {
					continue
				}
				m := g2.add(Step{Op: "NM", Name: []byte("n"), Stream: 7, Func: fn, WBit: w, Dir: []byte("H->E"), Ref: it})
				g2.add(Step{Op: "SW", Ref: m, B: true})
				g2.add(Step{Op: "SW", Ref: m, B: false})
				a := g2.add(Step{Op: "SS", Ref: m, Sid: 9, Sys: []byte{4, 3, 2, 1}})
				g2.add(Step{Op: "SW", Ref: a, B: true})
				g2.add(Step{Op: "SW", Ref: a, B: false})
			}
		}
		for _, d := range []string{"H->E", "H<-E", "H<->E", "", "h->e", "E->H", "H->E ", "H<=>E"} {
			g2.add(Step{Op: "NM", Name: nil, Stream: 1, Func: 1, WBit: 0, Dir: []byte(d), Ref: it})
		}
		for _, n := range []string{"", "ok", "a b", "a\tb", "a\nb", "a\u00a0b", "a\u2003b", "a\u3000b", "a\u0085b", "\x85", "\xa0", "a\xc2", "\u540d\u524d", "a\vb", "a\u200bb", "a\u2028b", "a\u180eb", "a\u1680b", "a\u205fb", "a\ufeffb", "a\fb", "a\rb"} {
			g2.add(Step{Op: "NM", Name: []byte(n), Stream: 1, Func: 1, WBit: 0, Dir: []byte("H->E"), Ref: it})
		}
		c.emit(Case{"messages", g2.steps, false})
	}
	// fills with out-of-domain values: refused exactly as by the constructor
	for i := 0; i < c.scale(400, 20000); i++ {
		g2 := c.gen()
		sp := leafSpecs[g2.pick(len(leafSpecs)-1)]
		name := []byte("v")
		t := g2.add(Step{Op: sp.op, W: sp.w, Args: []Arg{{T: 's', S: name}}})
		var val Arg
		switch g2.pick(5) {
		case 0:
			val = ints[g2.pick(len(ints))].a
		case 1:
			val = Arg{T: '8', U: f64Boundary[g2.pick(len(f64Boundary))]}
		case 2:
			val = others[g2.pick(len(others)-1)]
		case 3:
			val = Arg{T: 's', S: names[g2.pick(len(names))]}
		default:
			val = Arg{T: '4', U: uint64(f32Boundary[g2.pick(len(f32Boundary))])}
		}
		g2.add(Step{Op: "FI", Ref: t, Map: []KV{{name, val}}})
		g2.add(Step{Op: sp.op, W: sp.w, Args: []Arg{val}})
		c.emit(Case{"fill-domain", g2.steps, false})
	}
}

// independent oracle for single-integer constructions: in range <=> built, and
// what is built prints and encodes exactly the number passed
func monitorC12(c *Ctx, id string, cs Case, e *Exec, final []string) {
	if cs.Label == "fill-domain" && len(final) == 3 {
		// filling a variable and constructing with the value in place: same item or both refused
		c.stats["monitor:fill-vs-direct"]++
		if final[1] != final[2] {
			c.hit(id, cs, "fill-vs-constructor", fmt.Sprintf("fill: %s, direct construction: %s", short(final[1]), short(final[2])))
		}
		return
	}
	if cs.Label != "int-grid" {
		return
	}
	for i, s := range cs.Steps {
		if (s.Op != "NI" && s.Op != "NU") || len(s.Args) != 1 || s.Args[0].T != 'i' {
			continue
		}
		a := s.Args[0]
		v := new(big.Int)
		if a.IK >= KUint {
			v.SetUint64(a.U)
		} else {
			v.SetInt64(a.I)
		}
		okw := s.W == 1 || s.W == 2 || s.W == 4 || s.W == 8
		var lo, hi *big.Int
		if okw {
			if s.Op == "NI" {
				hi = new(big.Int).Sub(new(big.Int).Lsh(big.NewInt(1), uint(8*s.W-1)), big.NewInt(1))
				lo = new(big.Int).Neg(new(big.Int).Lsh(big.NewInt(1), uint(8*s.W-1)))
			} else {
				lo = big.NewInt(0)
				hi = new(big.Int).Sub(new(big.Int).Lsh(big.NewInt(1), uint(8*s.W)), big.NewInt(1))
			}
		}
		want := okw && v.Cmp(lo) >= 0 && v.Cmp(hi) <= 0
		c.stats["monitor:int-oracle"]++
		_, isPanic := e.Pool[i].(panicked)
		if want == isPanic {
			c.hit(id, Case{cs.Label, []Step{s}, false}, "int-accept", fmt.Sprintf("%s %d value %s: built=%v, in range=%v", s.Op, s.W, v, !isPanic, want))
			continue
		}
		if isPanic {
			continue
		}
		tag := "I"
		if s.Op == "NU" {
			tag = "U"
		}
		wantStr := fmt.Sprintf("<%s%d[1] %s>", tag, s.W, v)
		pat := new(big.Int).Set(v)
		if v.Sign() < 0 {
			pat.Add(pat, new(big.Int).Lsh(big.NewInt(1), uint(8*s.W)))
		}
		pb := pat.Bytes()
		enc := make([]byte, s.W)
		copy(enc[s.W-len(pb):], pb)
		wantBytes := append([]byte{0, byte(s.W)}, enc...)
		codes := map[string]byte{"I1": 0o31, "I2": 0o32, "I4": 0o34, "I8": 0o30, "U1": 0o51, "U2": 0o52, "U4": 0o54, "U8": 0o50}
		wantBytes[0] = codes[fmt.Sprintf("%s%d", tag, s.W)]<<2 | 1
		_, f, _ := parseObs(final[i])
		if f["str"] != "x:"+hx([]byte(wantStr)) || f["bytes"] != hx(wantBytes) {
			c.hit(id, Case{cs.Label, []Step{s}, false}, "int-stored", fmt.Sprintf("%s %d value %s: prints %s encodes %s", s.Op, s.W, v, f["str"], f["bytes"]))
		}
	}
}

// ---------- C18 ----------

func (g *Gen) anyMsg(it int) int {
	f := g.pick(256)
	w := g.pick(3)
	if f%2 == 0 && w == 1 {
		w = 0
	}
	m := g.add(Step{Op: "NM", Name: []byte(msgNames[g.pick(len(msgNames))]), Stream: g.pick(128), Func: f, WBit: w,
		Dir: []byte(directions[g.pick(3)]), Ref: it})
	return m
}

func (g *Gen) fillMapFor(vars []string, partial bool) []KV {
	var m []KV
	for _, v := range vars {
		if partial && g.chance(0.4) {
			continue
		}
		var a Arg
		switch g.pick(6) {
		case 0:
			a = g.signedArg(int64(g.pick(200)))
		case 1:
			a = Arg{T: 'b', B: g.chance(0.5)}
		case 2:
			a = Arg{T: 's', S: g.asciiBytes(g.pick(6))}
		case 3:
			a = Arg{T: '8', U: g.f64BitsForF4()}
		case 4:
			a = g.unsignedArg(uint64(g.pick(256)))
		default:
			a = g.signedArg(int64(g.pick(100)))
		}
		m = append(m, KV{[]byte(v), a})
	}
	if g.chance(0.3) {
		m = append(m, KV{[]byte("unknown_key"), Arg{T: 'i', IK: KInt, I: 5}})
	}
	return m
}

func suiteC18(c *Ctx) {
	n := c.scale(1500, 60000)
	for i := 0; i < n; i++ {
		g := c.gen()
		it := g.tree(treeOpts{depth: g.pick(3), vars: g.chance(0.5), maxLeaf: 6})
		var m int
		if g.chance(0.3) {
			m = g.hsmsMsg(it)
		} else {
			m = g.anyMsg(it)
		}
		ex := &Exec{}
		ex.Run(g.steps)
		var vars []string
		if dm, ok := ex.Pool[m].(interface{ Variables() []string }); ok {
			vars = dm.Variables()
		}
		k := 1 + g.pick(5)
		for j := 0; j < k; j++ {
			switch g.pick(3) {
			case 0:
				m2 := g.add(Step{Op: "SW", Ref: m, B: g.chance(0.5)})
				if g.chance(0.7) {
					m = m2
				}
			case 1:
				sid := g.sessionID()
				if g.chance(0.15) {
					sid = []int{-1, -2, 65536}[g.pick(3)]
				}
				sys := g.sysBytes()
				if g.chance(0.15) {
					sys = nil // no bytes at all: four zero bytes, whatever the message carried before
				}
				m2 := g.add(Step{Op: "SS", Ref: m, Sid: sid, Sys: sys})
				if g.chance(0.7) {
					m = m2
				}
			default:
				m2 := g.add(Step{Op: "FM", Ref: m, Map: g.fillMapFor(vars, true)})
				if g.chance(0.7) {
					m = m2
				}
			}
		}
		c.emit(Case{"producers", g.steps, g.chance(0.3)})
	}
}

// frame conditions on the library alone: fields a producer does not name are carried over
func monitorC18(c *Ctx, id string, cs Case, e *Exec, final []string) {
	allowed := map[string]map[string]bool{
		"SW": {"wbit": true, "header": true, "str": true, "bytes": true},
		"SS": {"sid": true, "sys": true, "bytes": true},
		"FM": {"vars": true, "str": true, "bytes": true},
	}
	for i, s := range cs.Steps {
		al, ok := allowed[s.Op]
		if !ok || s.Ref >= len(final) || !strings.HasPrefix(final[i], "M ") || !strings.HasPrefix(final[s.Ref], "M ") {
			continue
		}
		c.stats["monitor:producer-calls"]++
		_, src, order := parseObs(final[s.Ref])
		_, dst, _ := parseObs(final[i])
		for _, f := range order {
			if !al[f] && src[f] != dst[f] {
				c.hit(id, cs, "frame-"+s.Op, fmt.Sprintf("step %d: field %s changed from %s to %s", i, f, short(src[f]), short(dst[f])))
			}
		}
		if s.Op == "FM" {
			// the result's variable list is the one its printed form shows, and it
			// encodes iff it is complete
			if dm, ok := e.Pool[i].(*ast.DataMessage); ok {
				txt := dm.String()
				if j := strings.IndexByte(txt, '\n'); j >= 0 {
					txt = txt[j:]
				}
				pv := printedVars(txt)
				lv := dm.Variables()
				disp := make([]string, len(lv))
				stray := false
				for k, v := range lv {
					disp[k] = v
					if strings.HasPrefix(v, "...") {
						disp[k] = "..."
					}
					if v == "" {
						stray = true
					}
				}
				if !stray && strings.Join(pv, " ") != strings.Join(disp, " ") {
					c.hit(id, cs, "filled-message-variables", fmt.Sprintf("step %d: Variables() %v but the printed form shows %v", i, disp, pv))
				}
				complete := len(pv) == 0 && dm.WaitBit() != "optional" && dm.SessionID() != -1
				if !stray && complete != (len(dm.ToBytes()) > 0) {
					c.hit(id, cs, "filled-message-encoding", fmt.Sprintf("step %d: complete=%v but %d bytes", i, complete, len(dm.ToBytes())))
				}
			}
		}
		if s.Op == "SW" && src["wbit"] != hx([]byte("optional")) && final[i] != final[s.Ref] {
			c.hit(id, cs, "frame-SW-decided", fmt.Sprintf("step %d: wait bit was already decided but the message changed", i))
		}
		if s.Op == "SW" && src["wbit"] == hx([]byte("optional")) {
			want := "false"
			if s.B {
				want = "true"
			}
			if dst["wbit"] != hx([]byte(want)) {
				c.hit(id, cs, "frame-SW-value", fmt.Sprintf("step %d: wait bit %s", i, dst["wbit"]))
			}
		}
		if s.Op == "SS" {
			sys := make([]byte, 4)
			copy(sys, s.Sys)
			if dst["sid"] != fmt.Sprint(s.Sid) || dst["sys"] != hx(sys) {
				c.hit(id, cs, "frame-SS-value", fmt.Sprintf("step %d: sid %s sys %s", i, dst["sid"], dst["sys"]))
			}
		}
	}
}

// ---------- C09 ----------

func splitMap(g *Gen, m []KV) [][]KV {
	k := 1 + g.pick(4)
	parts := make([][]KV, k)
	for _, kv := range m {
		j := g.pick(k)
		parts[j] = append(parts[j], kv)
	}
	return parts
}

func suiteC09(c *Ctx) {
	n := c.scale(2500, 60000)
	for i := 0; i < n; i++ {
		g := c.gen()
		ell := g.chance(0.15)
		t := g.tree(treeOpts{depth: 1 + g.pick(3), vars: true, ellipsis: ell, maxLeaf: 5})
		ex := &Exec{}
		ex.Run(g.steps)
		it, ok := ex.item(t)
		if !ok {
			continue
		}
		vars := it.Variables()
		if len(vars) == 0 {
			continue
		}
		// values chosen to suit the variable's item where possible: the harness
		// asks the template which kind of item holds the variable
		full := g.typedFill(g.steps, vars, false)
		label := "compose"
		if ell {
			label = "with-ellipsis"
		} else if g.ownVars {
			label = "value-brings-variables" // outside the composition law's quantifier
		}
		single := g.add(Step{Op: "FI", Ref: t, Map: full})
		cur := t
		for _, part := range splitMap(g, full) {
			cur = g.add(Step{Op: "FI", Ref: cur, Map: part})
		}
		_ = single
		// a message around both, completed
		if g.chance(0.4) {
			for _, ref := range []int{single, cur} {
				m := g.add(Step{Op: "NM", Name: nil, Stream: 1, Func: 1, WBit: 2, Dir: []byte("H->E"), Ref: ref})
				m = g.add(Step{Op: "SW", Ref: m, B: true})
				g.add(Step{Op: "SS", Ref: m, Sid: 7, Sys: []byte{0, 0, 0, 9}})
			}
		}
		// fill of the template inside a message whose wait bit and session id are
		// already set, in steps; and the directly constructed message
		if g.chance(0.4) {
			m := g.add(Step{Op: "NM", Name: []byte("tpl"), Stream: 3, Func: 5, WBit: 2, Dir: []byte("H<-E"), Ref: t})
			m = g.add(Step{Op: "SW", Ref: m, B: true})
			sys := g.sysBytes()
			sid := g.sessionID()
			if g.chance(0.25) {
				// system bytes given while the message is not yet addressed: they are kept through every fill
				pre := g.add(Step{Op: "SS", Ref: m, Sid: -1, Sys: []byte{9, 8, 7, 6}})
				for _, part := range splitMap(g, full) {
					pre = g.add(Step{Op: "FM", Ref: pre, Map: part})
				}
			}
			m = g.add(Step{Op: "SS", Ref: m, Sid: sid, Sys: sys})
			for _, part := range splitMap(g, full) {
				m = g.add(Step{Op: "FM", Ref: m, Map: part})
			}
			g.add(Step{Op: "NH", Name: []byte("tpl"), Stream: 3, Func: 5, WBit: 1, Dir: []byte("H<-E"), Ref: single, Sid: sid, Sys: sys})
			label += "+msg"
		}
		c.emit(Case{label, g.steps, false})
	}
}

var leafVarRe = regexp.MustCompile(`<(BOOLEAN|B|A|I[1248]|U[1248]|F[48])(\[[^\]]*\])?( [^<>]*)?>`)

// typedFill chooses, for each variable, a value of the type its item accepts
// (found from the printed template), sometimes a wrong one
func (g *Gen) typedFill(steps []Step, vars []string, partial bool) []KV {
	ex := &Exec{}
	final := ex.Run(steps)
	_, f, _ := parseObs(final[len(final)-1])
	text := ""
	if s := f["str"]; strings.HasPrefix(s, "x:") && s != "x:-" {
		b := make([]byte, len(s[2:])/2)
		fmt.Sscanf(s[2:], "%x", &b)
		text = string(b)
	}
	kind := map[string]string{}
	for _, m := range leafVarRe.FindAllStringSubmatch(text, -1) {
		for _, tok := range strings.Fields(m[3]) {
			kind[tok] = m[1]
		}
	}
	var out []KV
	for _, v := range vars {
		if partial && g.chance(0.4) {
			continue
		}
		var a Arg
		k := kind[v]
		switch {
		case !g.plainFill && g.chance(0.05):
			a = Arg{T: 'o'}
		case strings.HasPrefix(v, "..."):
			a = Arg{T: 'i', IK: KInt, I: int64(g.pick(3))}
			if g.pick(25) == 0 {
				a.I = int64(10 + g.pick(3)) // two-digit indices
			}
		case !g.plainFill && k != "A" && g.chance(0.1):
			// a string renames the variable: to a new name, or to one the template already uses
			g.count("c09:rename")
			nm := g.freshName()
			if len(vars) > 1 && g.chance(0.5) {
				if o := vars[g.pick(len(vars))]; o != v && !strings.HasPrefix(o, "...") {
					nm = []byte(o)
				}
			}
			g.ownVars = true
			a = Arg{T: 's', S: nm}
		case k == "B":
			a = Arg{T: 'i', IK: KInt, I: int64(g.pick(256))}
		case k == "BOOLEAN":
			a = Arg{T: 'b', B: g.chance(0.5)}
		case k == "A":
			a = Arg{T: 's', S: g.asciiBytes(g.pick(7))}
		case strings.HasPrefix(k, "I"):
			a = g.signedArg(g.intVal(int(k[1] - '0')))
		case strings.HasPrefix(k, "U"):
			a = g.unsignedArg(g.uintVal(int(k[1] - '0')))
		case k == "F4":
			a = Arg{T: '8', U: g.f64BitsForF4()}
		case k == "F8":
			a = Arg{T: '8', U: g.f64Bits()}
		default:
			// a list variable: an item (possibly bringing its own variable), or a new name
			sel := g.pick(3)
			if g.plainFill {
				sel = 1
			}
			switch sel {
			case 0:
				a = Arg{T: 's', S: g.freshName()} // renames the variable
			case 1:
				a = Arg{T: 'r', Ref: g.add(Step{Op: "NU", W: 2, Args: []Arg{{T: 'i', IK: KInt, I: int64(g.pick(65536))}}})}
			default:
				inner := g.freshName()
				reused := false
				if len(vars) > 1 && g.chance(0.3) {
					reused = true
					// the value reuses a name that is already in the template: the result would hold it twice
					inner = []byte(vars[g.pick(len(vars))])
					if string(inner) == v || strings.HasPrefix(string(inner), "...") {
						inner = g.freshName()
						reused = false
					}
				}
				g.count("c09:value-brings-variable")
				g.ownVars = true
				a = Arg{T: 'r', Ref: g.add(Step{Op: "NI", W: 1, Args: []Arg{{T: 'i', IK: KInt, I: 0}, {T: 's', S: inner}}})}
				if !reused && g.chance(0.6) {
					// the same map also has a key for the variable the value brings: it must be inserted as is
					out = append(out, KV{inner, Arg{T: 'i', IK: KInt, I: int64(g.pick(100))}})
				}
			}
		}
		out = append(out, KV{[]byte(v), a})
	}
	if !g.plainFill && g.pick(12) == 0 {
		// a key that looks like an ellipsis the template does not have: ignored like any unknown key, whatever its value
		k := []string{"...[97]", "...[98]", "...[99]"}[g.pick(3)]
		known := false
		for _, v := range vars {
			if v == k {
				known = true
			}
		}
		if !known {
			out = append(out, KV{[]byte(k), []Arg{{T: 's', S: []byte("text")}, {T: 'o'}, {T: 'i', IK: KInt, I: -4}, {T: '8', U: 0x3ff8000000000000}}[g.pick(4)]})
			g.count("c09:unknown-ellipsis-key")
		}
	}
	return out
}

// composition law on the library alone: filling in several steps equals filling once
func monitorC09(c *Ctx, id string, cs Case, e *Exec, final []string) {
	// a fill changes the item and nothing else: name, codes, wait bit, direction, session id, system bytes stay
	for i, st := range cs.Steps {
		if st.Op != "FM" {
			continue
		}
		src, ok1 := e.msg(st.Ref)
		dst, ok2 := e.msg(i)
		if !ok1 || !ok2 {
			continue
		}
		c.stats["monitor:fill-frames"]++
		if src.Name() != dst.Name() || src.StreamCode() != dst.StreamCode() || src.FunctionCode() != dst.FunctionCode() ||
			src.WaitBit() != dst.WaitBit() || src.Direction() != dst.Direction() || src.SessionID() != dst.SessionID() ||
			!bytes.Equal(src.SystemBytes(), dst.SystemBytes()) {
			c.hit(id, cs, "fill-changed-header", fmt.Sprintf("step %d: session id %d -> %d, system bytes %x -> %x, header %q -> %q", i,
				src.SessionID(), dst.SessionID(), src.SystemBytes(), dst.SystemBytes(), src.Header(), dst.Header()))
			return
		}
	}
	if strings.HasSuffix(cs.Label, "+msg") {
		// the message filled in steps and the one constructed directly around the
		// filled item: identical when both exist
		n := len(final)
		if strings.HasPrefix(final[n-1], "M ") && strings.HasPrefix(final[n-2], "M ") {
			c.stats["monitor:filled-vs-direct-message"]++
			if final[n-1] != final[n-2] {
				c.hit(id, cs, "filled-message-differs", fmt.Sprintf("filled in steps: %s; constructed directly: %s", short(final[n-2]), short(final[n-1])))
			}
		}
	}
	if !strings.HasPrefix(cs.Label, "compose") {
		return
	}
	// the first FI is the single fill; the chain that follows starts from the same template
	first := -1
	for i, s := range cs.Steps {
		if s.Op == "FI" {
			first = i
			break
		}
	}
	if first < 0 {
		return
	}
	last := first
	for i := first + 1; i < len(cs.Steps) && cs.Steps[i].Op == "FI"; i++ {
		last = i
	}
	if last == first {
		return
	}
	// renaming values ("s" args that are variable names) are outside the law
	for _, kv := range cs.Steps[first].Map {
		if kv.V.T == 's' && isNameLike(kv.V.S) && !strings.Contains(final[first], "41") {
			// strings are ambiguous (ASCII value or variable name): compare anyway, the
			// chain and the single fill treat them alike when the variable is an ASCII one
		}
	}
	c.stats["monitor:compositions"]++
	// a refusal anywhere in the chain must coincide with refusal of the single fill
	chainPanicked := false
	for i := first + 1; i <= last; i++ {
		if final[i] == "P" || final[i] == "X" {
			chainPanicked = true
		}
	}
	singlePanicked := final[first] == "P"
	if renames(cs.Steps[first].Map) {
		c.stats["monitor:compositions-with-renaming"]++
		return
	}
	if chainPanicked != singlePanicked {
		c.hit(id, cs, "compose-refusal", fmt.Sprintf("single fill refused=%v, stepwise refused=%v", singlePanicked, chainPanicked))
		return
	}
	if !singlePanicked && final[first] != final[last] {
		c.hit(id, cs, "compose", fmt.Sprintf("single %s stepwise %s", short(final[first]), short(final[last])))
	}
}

func isNameLike(b []byte) bool {
	return len(b) > 0 && (b[0] == '_' || b[0] >= 'A' && b[0] <= 'Z' || b[0] >= 'a' && b[0] <= 'z')
}

// a string value given to a non-ASCII variable renames it: outside the law's quantifier
func renames(m []KV) bool {
	for _, kv := range m {
		if kv.V.T == 's' {
			return true
		}
	}
	return false
}

// ---------- C10 ----------

type shape struct {
	kind byte // 'u' leaf with variable, 'v' list variable, 'a' ascii variable, 'c' constant leaf, 'e' ellipsis, 'l' list, 'm' leaf with two variables
	sub  []shape
	name string // for 'e': the ellipsis name
}

// nameEllipses names the ellipses of a tree: a single one "...", several
// "...[k]" in order of appearance (what the SML parser produces), or, with
// scramble, arbitrary distinct indices
func nameEllipses(s *shape, scramble func(int) int) {
	n := 0
	var count func(x *shape)
	count = func(x *shape) {
		if x.kind == 'e' {
			n++
		}
		for i := range x.sub {
			count(&x.sub[i])
		}
	}
	count(s)
	k := 0
	var assign func(x *shape)
	assign = func(x *shape) {
		if x.kind == 'e' {
			switch {
			case n == 1 && scramble == nil:
				x.name = "..."
			case scramble != nil:
				x.name = fmt.Sprintf("...[%d]", scramble(k))
			default:
				x.name = fmt.Sprintf("...[%d]", k)
			}
			k++
		}
		for i := range x.sub {
			assign(&x.sub[i])
		}
	}
	assign(s)
}

func (g *Gen) buildShape(s shape) Arg {
	switch s.kind {
	case 'u':
		return Arg{T: 'r', Ref: g.add(Step{Op: "NU", W: 1, Args: []Arg{{T: 's', S: g.plainName()}}})}
	case 'm':
		return Arg{T: 'r', Ref: g.add(Step{Op: "NI", W: 2, Args: []Arg{{T: 's', S: g.plainName()}, {T: 'i', IK: KInt, I: 7}, {T: 's', S: g.plainName()}}})}
	case 'a':
		return Arg{T: 'r', Ref: g.add(Step{Op: "NAV", Name: g.plainName(), Mn: int64(g.pick(2)), Mx: -1})}
	case 'c':
		return Arg{T: 'r', Ref: g.add(Step{Op: "NO", Args: []Arg{{T: 'b', B: true}}})}
	case 'v':
		return Arg{T: 's', S: g.plainName()}
	case 'e':
		return Arg{T: 's', S: []byte(s.name)}
	}
	var as []Arg
	for _, c := range s.sub {
		as = append(as, g.buildShape(c))
	}
	return Arg{T: 'r', Ref: g.add(Step{Op: "NL", Args: as})}
}

func (g *Gen) plainName() []byte {
	g.names++
	return []byte(fmt.Sprintf("v%d", g.names))
}

// all list shapes with up to maxSlots slots and the given depth, an ellipsis
// anywhere after the first slot
func enumShapes(depth, maxSlots int, leaves []byte) []shape {
	var res []shape
	var subs []shape
	for _, l := range leaves {
		subs = append(subs, shape{kind: l})
	}
	if depth > 0 {
		subs = append(subs, enumShapes(depth-1, maxSlots-1, leaves)...)
	}
	var rec func(cur []shape, ell bool)
	rec = func(cur []shape, ell bool) {
		if len(cur) > 0 {
			res = append(res, shape{kind: 'l', sub: append([]shape{}, cur...)})
		}
		if len(cur) == maxSlots {
			return
		}
		for _, s := range subs {
			rec(append(cur, s), ell)
		}
		if !ell && len(cur) > 0 {
			rec(append(cur, shape{kind: 'e'}), true)
		}
	}
	rec(nil, false)
	return res
}

func cloneShape(s shape) shape {
	r := shape{kind: s.kind, name: s.name}
	for _, c := range s.sub {
		r.sub = append(r.sub, cloneShape(c))
	}
	return r
}

func hasEllipsis(s shape) bool {
	if s.kind == 'e' {
		return true
	}
	for _, c := range s.sub {
		if hasEllipsis(c) {
			return true
		}
	}
	return false
}

func (c *Ctx) ellipsisCase(g *Gen, root int, label string) {
	ex := &Exec{}
	ex.Run(g.steps)
	it, ok := ex.item(root)
	if !ok {
		return
	}
	var ells []string
	for _, v := range it.Variables() {
		if strings.HasPrefix(v, "...") {
			ells = append(ells, v)
		}
	}
	if len(ells) == 0 {
		return
	}
	// every assignment of counts 0..2 (or none) to the ellipses when few, random otherwise
	var assigns [][]int
	if len(ells) <= 3 {
		n := 1
		for range ells {
			n *= 4
		}
		for a := 1; a < n; a++ {
			var as []int
			x := a
			for range ells {
				as = append(as, x%4-1)
				x /= 4
			}
			assigns = append(assigns, as)
		}
	} else {
		for k := 0; k < 12; k++ {
			var as []int
			for range ells {
				as = append(as, g.pick(4)-1)
			}
			assigns = append(assigns, as)
		}
	}
	if c.thorough && g.chance(0.2) {
		var as []int
		for range ells {
			as = append(as, g.pick(12))
		}
		assigns = append(assigns, as)
	}
	for _, as := range assigns {
		var m []KV
		for i, e := range ells {
			if as[i] >= 0 {
				m = append(m, KV{[]byte(e), Arg{T: 'i', IK: KInt, I: int64(as[i])}})
			}
		}
		if len(m) == 0 {
			continue
		}
		f := g.add(Step{Op: "FI", Ref: root, Map: m})
		_ = f
	}
	// then fill some of the generated names individually, and remaining ellipses
	base := len(g.steps)
	ex2 := &Exec{}
	ex2.Run(g.steps)
	for i := root + 1; i < base; i++ {
		it2, ok := ex2.item(i)
		if !ok || g.chance(0.5) {
			continue
		}
		vs := it2.Variables()
		if len(vs) == 0 {
			continue
		}
		var m []KV
		nell := 0
		for _, v := range vs {
			if strings.HasPrefix(v, "...") {
				nell++
			}
		}
		for _, v := range vs {
			if strings.HasPrefix(v, "...") {
				if g.chance(0.5) {
					cnt := int64(g.pick(3))
					if nell <= 2 && g.pick(12) == 0 {
						cnt = int64(10 + g.pick(2)) // indices with two digits
					}
					m = append(m, KV{[]byte(v), Arg{T: 'i', IK: KInt, I: cnt}})
				}
			} else if g.chance(0.3) {
				m = append(m, KV{[]byte(v), Arg{T: 'i', IK: KInt, I: int64(g.pick(2))}})
			}
		}
		if len(m) > 0 {
			g.add(Step{Op: "FI", Ref: i, Map: m})
		}
	}
	c.emit(Case{label, g.steps, false})
}

func suiteC10(c *Ctx) {
	// exhaustive small templates
	shapes := enumShapes(1, 3, []byte{'u', 'v', 'a', 'c'}) // depth 2 is millions of templates; the thorough tier takes all of depth 1
	cnt := 0
	for _, s := range shapes {
		if !hasEllipsis(s) {
			continue
		}
		cnt++
		if !c.thorough && cnt%3 != int(c.seed%3) && len(s.sub) > 2 {
			// the quick tier takes every third of the larger shapes (rotating with the seed)
			continue
		}
		g := c.gen()
		s2 := cloneShape(s)
		nameEllipses(&s2, nil)
		root := g.buildShape(s2)
		c.ellipsisCase(g, root.Ref, "exhaustive-small")
	}
	c.stats["c10:shapes-enumerated"] = cnt
	// random larger ones
	n := c.scale(600, 15000)
	for i := 0; i < n; i++ {
		g := c.gen()
		var mk func(d int) shape
		mk = func(d int) shape {
			k := 1 + g.pick(4)
			s := shape{kind: 'l'}
			ell := false
			for j := 0; j < k; j++ {
				switch {
				case j > 0 && !ell && g.chance(0.4):
					ell = true
					s.sub = append(s.sub, shape{kind: 'e'})
				case d > 0 && g.chance(0.45):
					s.sub = append(s.sub, mk(d-1))
				default:
					s.sub = append(s.sub, shape{kind: "uvacm"[g.pick(5)]})
				}
			}
			return s
		}
		s := mk(1 + g.pick(c.scale(3, 4)))
		if !hasEllipsis(s) {
			continue
		}
		if g.chance(0.25) {
			// arbitrary distinct indices, not in order of appearance
			perm := g.r.Perm(12)
			nameEllipses(&s, func(k int) int { return perm[k%12] + 12*(k/12) })
		} else {
			nameEllipses(&s, nil)
		}
		root := g.buildShape(s)
		c.ellipsisCase(g, root.Ref, "random")
	}
}

var idxSuffix = regexp.MustCompile(`(\[\d+\])+$`)

// on the library alone: names unique; an ellipsis filled with n > 0 at top level
// yields n+1 copies of each variable before it, with suffixes [0]..[n]
func monitorC10(c *Ctx, id string, cs Case, e *Exec, final []string) {
	for i, s := range cs.Steps {
		if s.Op == "FI" && final[i] == "P" && s.Ref < len(final) && strings.HasPrefix(final[s.Ref], "I ") {
			// an assignment of repeat counts only: the expansion must exist
			only := len(s.Map) > 0
			for _, kv := range s.Map {
				if !strings.HasPrefix(string(kv.K), "...") || kv.V.T != 'i' || kv.V.IK != KInt || kv.V.I < 0 {
					only = false
				}
			}
			if only {
				c.hit(id, cs, "expansion-refused", fmt.Sprintf("step %d: filling only ellipses of a valid template with counts >= 0 panicked", i))
			}
		}
		if s.Op != "FI" || !strings.HasPrefix(final[i], "I ") {
			continue
		}
		c.stats["monitor:fills"]++
		it, _ := e.item(i)
		vs := it.Variables()
		seen := map[string]bool{}
		for _, v := range vs {
			if seen[v] {
				c.hit(id, cs, "duplicate-name", fmt.Sprintf("step %d: %q twice in %v", i, v, vs))
				break
			}
			seen[v] = true
		}
		// an expansion renames by appending: every variable of the result is a variable of the template followed
		// by index groups (checked when the map holds repeat counts only, so that no value brings a name)
		if src, ok := e.item(s.Ref); ok {
			only := len(s.Map) > 0
			for _, kv := range s.Map {
				if !strings.HasPrefix(string(kv.K), "...") || kv.V.T != 'i' {
					only = false
				}
			}
			if only {
				orig := src.Variables()
				for _, v := range vs {
					if strings.HasPrefix(v, "...") {
						continue
					}
					found := false
					for _, o := range orig {
						if strings.HasPrefix(v, o) && indexGroupsRe.MatchString(v[len(o):]) {
							found = true
							break
						}
					}
					if !found {
						c.hit(id, cs, "renamed-not-suffixed", fmt.Sprintf("step %d: %q is not a variable of the template %v followed by indices", i, v, orig))
						break
					}
				}
			}
		}
		// remaining ellipses are "..." when alone, "...[k]" in order otherwise
		var ells []string
		for _, v := range vs {
			if strings.HasPrefix(v, "...") {
				ells = append(ells, v)
			}
		}
		if len(ells) > 1 {
			for k, v := range ells {
				if v != fmt.Sprintf("...[%d]", k) {
					c.hit(id, cs, "ellipsis-numbering", fmt.Sprintf("step %d: remaining ellipses %v", i, ells))
					break
				}
			}
		}
	}
}

// ---------- C16 ----------

func suiteC16(c *Ctx) {
	n := c.scale(2500, 100000)
	for i := 0; i < n; i++ {
		g := c.gen()
		t := g.tree(treeOpts{depth: g.pick(4), vars: g.chance(0.8), ellipsis: g.chance(0.4), maxLeaf: 7})
		mi := -1
		if g.chance(0.5) {
			if g.chance(0.5) {
				mi = g.anyMsg(t)
			} else {
				mi = g.hsmsMsg(t)
			}
		}
		if g.chance(0.3) {
			ex := &Exec{}
			ex.Run(g.steps)
			if it, ok := ex.item(t); ok {
				g.add(Step{Op: "FI", Ref: t, Map: g.typedFill(g.steps[:t+1], it.Variables(), true)})
			}
		}
		if mi >= 0 && g.chance(0.5) {
			// the message itself filled (completely, as a rule) after it has been looked at, then addressed:
			// what was true of the template (it has variables, it does not encode) is not true of the result
			ex := &Exec{}
			ex.Run(g.steps)
			if m, ok := ex.msg(mi); ok {
				base := mi
				if g.chance(0.6) {
					// the template is addressed and its wait bit decided first: it is complete but for its variables
					base = g.add(Step{Op: "SW", Ref: base, B: m.FunctionCode()%2 == 1 && g.chance(0.5)})
					base = g.add(Step{Op: "SS", Ref: base, Sid: g.pick(65536), Sys: g.sysBytes()})
				}
				g.plainFill = g.chance(0.6) // every variable gets a value of its kind: the result has none left
				f := g.add(Step{Op: "FM", Ref: base, Map: g.typedFill(g.steps[:t+1], m.Variables(), !g.plainFill && g.chance(0.2))})
				g.plainFill = false
				if g.chance(0.7) {
					w := g.add(Step{Op: "SW", Ref: f, B: g.chance(0.5)})
					g.add(Step{Op: "SS", Ref: w, Sid: g.pick(65536), Sys: g.sysBytes()})
				}
			}
		}
		if g.chance(0.1) {
			// the same name twice among the direct children of one list: refused
			n := g.freshName()
			g.add(Step{Op: "NL", Args: []Arg{{T: 's', S: n}, {T: 'r', Ref: t}, {T: 's', S: n}}})
		}
		c.emit(Case{"listing", g.steps, g.chance(0.35)})
	}
}

var indexGroupsRe = regexp.MustCompile(`^(\[\d+\])*$`)

var tokRe = regexp.MustCompile(`"[^"]*"|<|>|[^\s<>]+`)

// names of the variables in a printed item, in order of appearance, and the
// number of element pieces of the outermost item (independent little reader)
func printedVars(text string) []string {
	var out []string
	toks := tokRe.FindAllString(text, -1)
	typ := []string{}
	for i := 0; i < len(toks); i++ {
		t := toks[i]
		switch {
		case t == "<":
			i++
			if i < len(toks) {
				name := toks[i]
				if j := strings.IndexByte(name, '['); j >= 0 {
					name = name[:j]
				}
				typ = append(typ, name)
			}
		case t == ">":
			if len(typ) > 0 {
				typ = typ[:len(typ)-1]
			}
		case strings.HasPrefix(t, `"`):
		default:
			if len(typ) == 0 {
				continue
			}
			cur := typ[len(typ)-1]
			if t == "..." {
				out = append(out, t)
				continue
			}
			isName := t[0] == '_' || t[0] >= 'A' && t[0] <= 'Z' || t[0] >= 'a' && t[0] <= 'z'
			if !isName {
				continue
			}
			if cur == "BOOLEAN" && (t == "T" || t == "F") {
				continue
			}
			out = append(out, t)
		}
	}
	return out
}

func monitorC16(c *Ctx, id string, cs Case, e *Exec, final []string) {
	if c.stats["c16:limit-probe"] == 0 {
		c.stats["c16:limit-probe"] = 1
		// the largest variable-free items are still encodable
		for _, n := range []int{16777215, 16777214, 65536} {
			it := ast.NewASCIINode(strings.Repeat("a", n))
			if len(it.Variables()) != 0 || len(it.ToBytes()) != n+4 {
				c.hit(id, cs, "encodable-iff-limit", fmt.Sprintf("ASCII item of %d characters: %d variables, %d bytes", n, len(it.Variables()), len(it.ToBytes())))
			}
			l := ast.NewListNode(it)
			if len(l.ToBytes()) != n+6 {
				c.hit(id, cs, "encodable-iff-limit", fmt.Sprintf("list around an ASCII item of %d characters: %d bytes", n, len(l.ToBytes())))
			}
		}
	}
	for i, o := range final {
		if !strings.HasPrefix(o, "I ") && !strings.HasPrefix(o, "M ") {
			continue
		}
		_, f, _ := parseObs(o)
		var vars []string
		if f["vars"] != "-" {
			for _, h := range strings.Split(f["vars"], ",") {
				if h == "-" {
					vars = append(vars, "")
					continue
				}
				b := make([]byte, len(h)/2)
				fmt.Sscanf(h, "%x", &b)
				vars = append(vars, string(b))
			}
		}
		c.stats["monitor:listings"]++
		seen := map[string]bool{}
		for _, v := range vars {
			if seen[v] {
				c.hit(id, cs, "duplicate-variable", fmt.Sprintf("entry %d: %v", i, vars))
			}
			seen[v] = true
		}
		// encodable iff no variables (for messages: and complete)
		if strings.HasPrefix(o, "I ") {
			empty := f["bytes"] == "-"
			if empty != (len(vars) > 0) && f["str"] != "x:-" {
				c.hit(id, cs, "encodable-iff", fmt.Sprintf("entry %d: vars %v bytes %s", i, vars, short(f["bytes"])))
			}
		} else if dm, ok := e.Pool[i].(*ast.DataMessage); ok {
			// a message encodes iff it has no variables, its wait bit is decided and it is addressed
			complete := dm.WaitBit() != "optional" && dm.SessionID() != -1
			empty := f["bytes"] == "-"
			if complete && empty != (len(vars) > 0) {
				c.hit(id, cs, "encodable-iff-message", fmt.Sprintf("entry %d: vars %v, session id %d, wait bit %s, bytes %s", i, vars, dm.SessionID(), dm.WaitBit(), short(f["bytes"])))
			}
		}
		// printed order
		sb := f["str"]
		if !strings.HasPrefix(sb, "x:") {
			continue
		}
		raw := make([]byte, len(sb[2:])/2)
		if sb != "x:-" {
			fmt.Sscanf(sb[2:], "%x", &raw)
		}
		text := string(raw)
		if strings.HasPrefix(o, "M ") {
			if j := strings.IndexByte(text, '\n'); j >= 0 {
				text = text[j:]
			}
		}
		pv := printedVars(text)
		disp := make([]string, len(vars))
		for k, v := range vars {
			disp[k] = v
			if strings.HasPrefix(v, "...") {
				disp[k] = "..."
			}
		}
		stray := false
		for _, v := range vars {
			if v == "" {
				stray = true
			}
		}
		// an empty item node placed in a list is listed under the name "" and printed as an empty line; no other
		// object has an unnamed variable
		hasEmptyNode := false
		for _, st := range cs.Steps {
			if st.Op == "NE" {
				hasEmptyNode = true
			}
		}
		if stray && !hasEmptyNode {
			c.hit(id, cs, "unnamed-variable", fmt.Sprintf("entry %d: Variables() %q, printed %v", i, vars, pv))
		} else if !stray && strings.Join(pv, " ") != strings.Join(disp, " ") {
			c.hit(id, cs, "printed-order", fmt.Sprintf("entry %d: Variables() %v, printed %v", i, disp, pv))
		}
	}
}

// ---------- C11 ----------

func suiteC11(c *Ctx) {
	n := c.scale(1200, 30000)
	for i := 0; i < n; i++ {
		g := c.gen()
		steps := 6 + g.pick(c.scale(20, 50))
		var items, msgs, ctls []int
		if g.chance(0.12) {
			// a template with an optional wait bit, addressed, from which both wait bits are derived (in either
			// order, some of them twice): each derived message is a message of its own
			it := g.tree(treeOpts{depth: g.pick(3), vars: false, maxLeaf: 5})
			t := g.add(Step{Op: "NM", Name: []byte("Tpl"), Stream: g.pick(128), Func: 1 + 2*g.pick(128), WBit: 2, Dir: []byte("H->E"), Ref: it})
			t = g.add(Step{Op: "SS", Ref: t, Sid: g.sessionID(), Sys: g.sysBytes()})
			b := g.chance(0.5)
			for k := 0; k < 2+g.pick(3); k++ {
				msgs = append(msgs, g.add(Step{Op: "SW", Ref: t, B: b}))
				b = !b
			}
			items = append(items, it)
		}
		for len(g.steps) < steps {
			switch g.pick(10) {
			case 0, 1, 2:
				before := len(g.steps)
				t := g.tree(treeOpts{depth: g.pick(3), vars: g.chance(0.5), ellipsis: g.chance(0.2), maxLeaf: 5})
				for k := before; k <= t; k++ {
					items = append(items, k)
				}
			case 3:
				if len(items) > 0 {
					// a list sharing existing items
					var as []Arg
					for k := 0; k < 1+g.pick(3); k++ {
						as = append(as, Arg{T: 'r', Ref: items[g.pick(len(items))]})
					}
					items = append(items, g.add(Step{Op: "NL", Args: as}))
				}
			case 4:
				if len(items) > 0 {
					it := items[g.pick(len(items))]
					if g.chance(0.5) {
						msgs = append(msgs, g.hsmsMsg(it))
					} else {
						msgs = append(msgs, g.anyMsg(it))
					}
				}
			case 5:
				if len(msgs) > 0 {
					m := msgs[g.pick(len(msgs))]
					switch g.pick(3) {
					case 0:
						// both wait bits from the same message: the two results are siblings, not one object
						b := g.chance(0.5)
						a1 := g.add(Step{Op: "SW", Ref: m, B: b})
						a2 := g.add(Step{Op: "SW", Ref: m, B: !b})
						msgs = append(msgs, a1, a2)
						if g.chance(0.6) {
							msgs = append(msgs, g.add(Step{Op: "SS", Ref: a2, Sid: g.sessionID(), Sys: g.sysBytes()}))
							msgs = append(msgs, g.add(Step{Op: "SS", Ref: a1, Sid: g.sessionID(), Sys: g.sysBytes()}))
						}
					case 1:
						msgs = append(msgs, g.add(Step{Op: "SS", Ref: m, Sid: g.sessionID(), Sys: g.sysBytes()}))
					default:
						msgs = append(msgs, g.add(Step{Op: "RP", Ref: m}))
					}
				}
			case 6:
				if len(items) > 0 {
					it := items[g.pick(len(items))]
					ex := &Exec{}
					ex.Run(g.steps)
					if x, ok := ex.item(it); ok {
						items = append(items, g.add(Step{Op: "FI", Ref: it, Map: g.typedFill(g.steps[:it+1], x.Variables(), true)}))
					}
				}
			case 7:
				if len(msgs) > 0 {
					m := msgs[g.pick(len(msgs))]
					ex := &Exec{}
					ex.Run(g.steps)
					if x, ok := ex.msg(m); ok {
						var kv []KV
						for _, v := range x.Variables() {
							if g.chance(0.5) {
								kv = append(kv, KV{[]byte(v), Arg{T: 'i', IK: KInt, I: int64(g.pick(3))}})
							}
						}
						msgs = append(msgs, g.add(Step{Op: "FM", Ref: m, Map: kv}))
					}
				}
			case 8:
				sys := g.sysBytes()
				for len(sys) < 4 {
					sys = append(sys, 1)
				}
				ctls = append(ctls, g.add(Step{Op: []string{"CSQ", "CDQ", "CPQ"}[g.pick(3)], Sid: g.sessionID(), Sys: sys}))
				if g.chance(0.5) {
					ctls = append(ctls, g.add(Step{Op: "CN", S: []byte{1, 2, 3, 4, 0, byte(1 + g.pick(7)), 6, 7, 8, 9}}))
				}
			case 9:
				if len(ctls) > 0 {
					r := ctls[g.pick(len(ctls))]
					switch g.pick(4) {
					case 0:
						ctls = append(ctls, g.add(Step{Op: "CSR", Ref: r, B1: byte(g.pick(4))}))
					case 1:
						ctls = append(ctls, g.add(Step{Op: "CDR", Ref: r, B1: byte(g.pick(4))}))
					case 2:
						ctls = append(ctls, g.add(Step{Op: "CLR", Ref: r}))
					default:
						ctls = append(ctls, g.add(Step{Op: "RP", Ref: r}))
					}
				}
			}
		}
		c.emit(Case{"history", g.steps, true})
	}
}

// the property itself: what was observed of an object when it was created is
// what is observed at the end, whatever was called and scribbled on meanwhile
func monitorC11(c *Ctx, id string, cs Case, e *Exec, final []string) {
	for i := range final {
		c.stats["monitor:objects"]++
		if e.Early[i] != final[i] {
			_, a, order := parseObs(e.Early[i])
			_, b, _ := parseObs(final[i])
			field := "?"
			for _, f := range order {
				if a[f] != b[f] {
					field = f
					break
				}
			}
			c.hit(id, cs, "object-changed", fmt.Sprintf("entry %d field %s: was %s, now %s", i, field, short(a[field]), short(b[field])))
			return
		}
	}
}
