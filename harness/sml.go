package main

// sml.go — SML-side helpers of the harness: classification of diagnostics by
// kind (the model carries kinds, not texts), oracles for the model (float text,
// letters/digits beyond ASCII), and generators of SML texts.

import (
	"fmt"
	"math"
	"regexp"
	"strconv"
	"strings"
	"unicode"
	"unicode/utf8"

	"github.com/wolimst/lib-secs2-hsms-go/pkg/parser/sml"
)

var diagRe = regexp.MustCompile(`^Ln (\d+), Col (\d+): (.*)$`)

type kindRule struct {
	re   *regexp.Regexp
	kind int
}

var errorKinds = []kindRule{
	{regexp.MustCompile(`^expected stream function, found `), 1},
	{regexp.MustCompile(`^stream code range overflow`), 2},
	{regexp.MustCompile(`^function code range overflow`), 3},
	{regexp.MustCompile(`^wait bit cannot be true on reply message`), 4},
	{regexp.MustCompile(`^expected message end character '\.', found `), 5},
	{regexp.MustCompile(`^expected '<' or '\.', found `), 6},
	{regexp.MustCompile(`^expected '<', found `), 7},
	{regexp.MustCompile(`^invalid data item type: `), 8},
	{regexp.MustCompile(`^syntax error: `), 9},
	{regexp.MustCompile(`^data item size overflow, got size of \d+$`), 10},
	{regexp.MustCompile(`^expected '>', found `), 11},
	{regexp.MustCompile(`^duplicated variable name "`), 12},
	{regexp.MustCompile(`^ellipsis cannot be the first item in list$`), 13},
	{regexp.MustCompile(`^expected child data item, variable, ellipsis, or '>', found `), 14},
	{regexp.MustCompile(`^expected ASCII characters, found `), 15},
	{regexp.MustCompile(`^expected ASCII number code, found `), 16},
	{regexp.MustCompile(`^overflows ASCII range, found `), 17},
	{regexp.MustCompile(`^variable cannot co-exist with other literals in ASCII data item$`), 18},
	{regexp.MustCompile(`^expected quoted string, ASCII number code or variable, found `), 19},
	{regexp.MustCompile(`^binary value overflow, should be in range of \[0, 256\)$`), 20},
	{regexp.MustCompile(`^expected number or variable, found `), 21},
	{regexp.MustCompile(`^expected boolean value or variable, found `), 22},
	{regexp.MustCompile(`^F[48] range overflow$`), 23},
	{regexp.MustCompile(`^expected float, found `), 24},
	{regexp.MustCompile(`^expected float or variable, found `), 25},
	{regexp.MustCompile(`^I[1248] range overflow$`), 26},
	{regexp.MustCompile(`^expected integer, found `), 27},
	{regexp.MustCompile(`^expected integer or variable, found `), 28},
	{regexp.MustCompile(`^U[1248] range overflow$`), 29},
	{regexp.MustCompile(`^expected unsigned integer, found `), 30},
	{regexp.MustCompile(`^expected unsigned integer or variable, found `), 31},
	{regexp.MustCompile(`^missing message direction, "H<->E" will be used$`), 40},
	{regexp.MustCompile(`^wrong ellipsis count, ".*" will be used$`), 41},
	{regexp.MustCompile(`^Recovered from panic `), 42},
}

// diagKind: "line:col:kind"; anything the parser reports from a recovered panic
// (free text of the panic value) is kind 32; a diagnostic not of the form
// "Ln x, Col y: text" is kind 98
func diagKind(d string) string {
	m := diagRe.FindStringSubmatch(strings.ReplaceAll(d, "\n", " "))
	if m == nil {
		return "0:0:98"
	}
	kind := 32
	for _, r := range errorKinds {
		if r.re.MatchString(m[3]) {
			kind = r.kind
			break
		}
	}
	return fmt.Sprintf("%s:%s:%d", m[1], m[2], kind)
}

func diagsField(ds []string) string {
	if len(ds) == 0 {
		return "-"
	}
	parts := make([]string, len(ds))
	for i, d := range ds {
		parts[i] = diagKind(d)
	}
	return strings.Join(parts, ",")
}

func lexErrKind(text string) string {
	switch {
	case strings.HasPrefix(text, "unexpected character in data item"):
		return "e1"
	case text == "invalid data item size":
		return "e2"
	case text == "unclosed quoted string":
		return "e3"
	case strings.HasPrefix(text, "invalid number syntax"):
		return "e4"
	}
	return "e?"
}

func tokensField(ts []sml.VerifToken) string {
	if len(ts) == 0 {
		return "-"
	}
	parts := make([]string, len(ts))
	for i, t := range ts {
		v := hx([]byte(t.Val))
		if t.Type == 1 {
			v = lexErrKind(t.Val)
		}
		parts[i] = fmt.Sprintf("%d:%s:%d:%d", t.Type, v, t.Line, t.Col)
	}
	return strings.Join(parts, ";")
}

// oracles for the model
func alnumRunes(input string) []int32 {
	seen := map[rune]bool{}
	var out []int32
	for i := 0; i < len(input); {
		r, w := utf8.DecodeRuneInString(input[i:])
		i += w
		if r >= 128 && (unicode.IsLetter(r) || unicode.IsDigit(r)) && !seen[r] {
			seen[r] = true
			out = append(out, int32(r))
		}
	}
	return out
}

func floatOracles(input string) []FloatOracle {
	seen := map[string]bool{}
	var out []FloatOracle
	// only the number tokens of F4/F8 items are ever looked up by the model
	var types []string
	var toks []sml.VerifToken
	for _, t := range sml.VerifLex(input) {
		if t.Type != 2 { // the parser does not see comments
			toks = append(toks, t)
		}
	}
	for i, t := range toks {
		switch t.Type {
		case 8: // '<'
			ty := ""
			if i+1 < len(toks) && toks[i+1].Type == 10 {
				ty = toks[i+1].Val
			}
			types = append(types, ty)
		case 9: // '>'
			if len(types) > 0 {
				types = types[:len(types)-1]
			}
		case 3: // '.'
			types = types[:0]
		}
		if t.Type != 12 || seen[t.Val] || len(types) == 0 || (types[len(types)-1] != "F4" && types[len(types)-1] != "F8") {
			continue
		}
		seen[t.Val] = true
		o := FloatOracle{Tok: []byte(t.Val)}
		st := func(err error) int {
			if err == nil {
				return 0
			}
			if ne, ok := err.(*strconv.NumError); ok && ne.Err == strconv.ErrRange {
				return 1
			}
			return 2
		}
		v32, e32 := strconv.ParseFloat(t.Val, 32)
		v64, e64 := strconv.ParseFloat(t.Val, 64)
		o.S32, o.S64 = st(e32), st(e64)
		o.B32 = uint64(math.Float32bits(float32(v32)))
		o.B64 = math.Float64bits(v64)
		out = append(out, o)
	}
	return out
}

// smlStep builds an SP step with its oracles
func smlStep(input string) Step {
	return Step{Op: "SP", S: []byte(input), Alnum: alnumRunes(input), Floats: floatOracles(input)}
}

func lexStep(input string) Step {
	return Step{Op: "SX", S: []byte(input), Alnum: alnumRunes(input)}
}
