package main

// wire.go — generator-side helpers that rewrite valid HSMS encodings: the same
// item with non-minimal length bytes or non-0/1 booleans, truncations,
// single-byte alterations. They only produce inputs; nothing here judges them.

import "math/rand"

type itemPos struct {
	off   int // offset of the format byte
	nlen  int // number of length bytes
	depth int
}

// walk returns the positions of every item header of a valid item encoding
func walkItems(b []byte, pos int, depth int, out *[]itemPos) int {
	if pos >= len(b) {
		return -1
	}
	fb := b[pos]
	k := int(fb & 3)
	if k == 0 || pos+1+k > len(b) {
		return -1
	}
	n := 0
	for i := 0; i < k; i++ {
		n = n<<8 | int(b[pos+1+i])
	}
	*out = append(*out, itemPos{pos, k, depth})
	p := pos + 1 + k
	if fb>>2 == 0 {
		for i := 0; i < n; i++ {
			p = walkItems(b, p, depth+1, out)
			if p < 0 {
				return -1
			}
		}
		return p
	}
	if p+n > len(b) {
		return -1
	}
	return p + n
}

// relaxItem re-encodes the item at pos with randomly widened length fields and,
// for boolean items, arbitrary non-zero bytes for true
func relaxItem(b []byte, pos int, r *rand.Rand, out *[]byte) int {
	fb := b[pos]
	k := int(fb & 3)
	n := 0
	for i := 0; i < k; i++ {
		n = n<<8 | int(b[pos+1+i])
	}
	k2 := k
	if r.Intn(2) == 0 {
		k2 = k + r.Intn(4-k)
	}
	*out = append(*out, fb&^3|byte(k2))
	for i := k2 - 1; i >= 0; i-- {
		*out = append(*out, byte(n>>(8*i)))
	}
	p := pos + 1 + k
	if fb>>2 == 0 {
		for i := 0; i < n; i++ {
			p = relaxItem(b, p, r, out)
		}
		return p
	}
	for i := 0; i < n; i++ {
		v := b[p+i]
		if fb>>2 == 0o11 && v != 0 && r.Intn(2) == 0 {
			v = byte(1 + r.Intn(255))
		}
		*out = append(*out, v)
	}
	return p + n
}

func setMsgLen(b []byte) {
	n := len(b) - 4
	b[0], b[1], b[2], b[3] = byte(n>>24), byte(n>>16), byte(n>>8), byte(n)
}

// relaxMessage rewrites a valid data message with non-minimal lengths
func relaxMessage(msg []byte, r *rand.Rand) []byte {
	if len(msg) <= 14 {
		return append([]byte{}, msg...)
	}
	out := append([]byte{}, msg[:14]...)
	relaxItem(msg, 14, r, &out)
	setMsgLen(out)
	return out
}

type mutant struct {
	kind string
	b    []byte
}

// corruptions of a valid message: the quantifier of C03's single-point stream
func corruptions(msg []byte, r *rand.Rand, budget int) []mutant {
	var ms []mutant
	cp := func() []byte { return append([]byte{}, msg...) }
	// truncation points: all when short, sampled otherwise
	for i := 0; i < len(msg); i++ {
		if len(msg) > 40 && r.Intn(len(msg)) > 30 {
			continue
		}
		ms = append(ms, mutant{"trunc", cp()[:i]})
		t := cp()[:i]
		if len(t) >= 4 {
			setMsgLen(t)
			ms = append(ms, mutant{"trunc-fixlen", t})
		}
	}
	// appended bytes, with and without the message length fixed up
	for _, extra := range [][]byte{{0}, {1, 1, 0}, {0x41, 0}, {0xff, 0xff}} {
		a := append(cp(), extra...)
		ms = append(ms, mutant{"append", a})
		a2 := append([]byte{}, a...)
		setMsgLen(a2)
		ms = append(ms, mutant{"append-fixlen", a2})
	}
	// header bytes and item header bytes altered
	var ips []itemPos
	if len(msg) > 14 {
		walkItems(msg, 14, 0, &ips)
	}
	var offs []int
	for i := 0; i < 14 && i < len(msg); i++ {
		offs = append(offs, i)
	}
	for _, ip := range ips {
		for j := 0; j <= ip.nlen; j++ {
			offs = append(offs, ip.off+j)
		}
	}
	for _, o := range offs {
		vals := []int{int(msg[o]) ^ 1, int(msg[o]) ^ 0x80, int(msg[o]) + 1, int(msg[o]) - 1, 0, 255}
		if len(msg) <= 64 && budget > 2000 {
			vals = vals[:0]
			for v := 0; v < 256; v++ {
				vals = append(vals, v)
			}
		}
		for _, v := range vals {
			if byte(v) == msg[o] {
				continue
			}
			c := cp()
			c[o] = byte(v)
			ms = append(ms, mutant{"alter", c})
		}
	}
	// a payload byte altered (ASCII high bit, float exponent, boolean)
	for t := 0; t < 6 && len(msg) > 15; t++ {
		c := cp()
		o := 14 + r.Intn(len(msg)-14)
		c[o] ^= byte(1 << uint(r.Intn(8)))
		ms = append(ms, mutant{"payload", c})
	}
	if len(ms) > budget {
		r.Shuffle(len(ms), func(i, j int) { ms[i], ms[j] = ms[j], ms[i] })
		ms = ms[:budget]
	}
	return ms
}
