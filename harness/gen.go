package main

// gen.go — generators shared by the suites. Every random choice comes from one
// PRNG seeded from VERIF_SEED, so a case is replayable from (suite, seed, index)
// and, independently of that, from its own text.

import (
	"fmt"
	"math"
	"math/rand"
	"strings"
)

type Gen struct {
	r       *rand.Rand
	steps   []Step
	names   int
	given   [][]byte        // the names handed out so far
	recased map[string]bool // names that already have a variant differing in letter case only
	big     bool            // thorough tier: larger sizes
	// typedFill: no renames, no values of another kind, no values that bring variables
	plainFill bool
	ownVars   bool // a fill value that brings its own variables was generated
	stats     map[string]int
}

func newGen(r *rand.Rand, big bool, stats map[string]int) *Gen {
	return &Gen{r: r, big: big, stats: stats}
}

func (g *Gen) add(s Step) int {
	g.steps = append(g.steps, s)
	return len(g.steps) - 1
}

func (g *Gen) count(k string) {
	if g.stats != nil {
		g.stats[k]++
	}
}

func (g *Gen) pick(n int) int        { return g.r.Intn(n) }
func (g *Gen) chance(p float64) bool { return g.r.Float64() < p }

// swapCase changes the case of every ASCII letter
func swapCase(n []byte) []byte {
	out := append([]byte(nil), n...)
	for i, b := range out {
		if b >= 'a' && b <= 'z' {
			out[i] = b - 32
		} else if b >= 'A' && b <= 'Z' {
			out[i] = b + 32
		}
	}
	return out
}

func (g *Gen) freshName() []byte {
	n := g.freshName1()
	g.given = append(g.given, n)
	return n
}

func (g *Gen) freshName1() []byte {
	// now and then a name that differs from an earlier one in letter case only: names are compared byte for byte
	if len(g.given) > 0 && g.pick(8) == 0 {
		base := g.given[g.pick(len(g.given))]
		if g.recased == nil {
			g.recased = map[string]bool{}
		}
		v := swapCase(base)
		if !g.recased[string(base)] && !g.recased[string(v)] && string(v) != string(base) {
			g.recased[string(base)] = true
			g.recased[string(v)] = true
			g.stats["names:case-variant"]++
			return v
		}
	}
	// now and then a name that reads like a boolean literal when written out in full: it is a name all the same
	if g.pick(14) == 0 {
		for _, n := range []string{"true", "False", "TRUE", "fAlse", "truE", "FALSE"} {
			if g.recased == nil {
				g.recased = map[string]bool{}
			}
			if !g.recased["kw:"+strings.ToLower(n)] && !g.recased[strings.ToLower(n)] {
				g.recased["kw:"+strings.ToLower(n)] = true
				g.stats["names:boolean-word"]++
				return []byte(n)
			}
		}
	}
	g.names++
	switch g.pick(5) {
	case 0:
		return []byte(fmt.Sprintf("v%d", g.names))
	case 1:
		return []byte(fmt.Sprintf("_x%d", g.names))
	case 2:
		return []byte(fmt.Sprintf("Var_%d[%d]", g.names, g.pick(12)))
	case 3:
		return []byte(fmt.Sprintf("n%d[%d][%d]", g.names, g.pick(3), g.pick(300)))
	default:
		return []byte(fmt.Sprintf("abc%dZ", g.names))
	}
}

var badNames = []string{"", "1abc", "a b", "a-b", "x[", "x[]", "x[1", "x[a]", "x[1]y", "...", "...[0]", "..", "....", "...[x]", "é", "a\n", "[1]", "x[1][", "x[-1]", " x", "x ", "T", "f", "0b1", "0b", "0b2", "名前", "x٣", "v[٣]", "aé", "x[١]", "xⅫ", "ǅ", "x\u0300", "...[٠]", "...[١]", "...[0][1]", "...[]", "...[ 1]", "v[+3]", "lot[0][+3]", "v[-0]", "v[0x1]", "v[1_0]"}

// widths and ranges
func intRange(w int) (int64, int64) {
	switch w {
	case 1:
		return math.MinInt8, math.MaxInt8
	case 2:
		return math.MinInt16, math.MaxInt16
	case 4:
		return math.MinInt32, math.MaxInt32
	}
	return math.MinInt64, math.MaxInt64
}

func uintMax(w int) uint64 {
	switch w {
	case 1:
		return math.MaxUint8
	case 2:
		return math.MaxUint16
	case 4:
		return math.MaxUint32
	}
	return math.MaxUint64
}

// an in-range signed value, biased to the boundaries
func (g *Gen) intVal(w int) int64 {
	lo, hi := intRange(w)
	switch g.pick(10) {
	case 0:
		return lo
	case 1:
		return hi
	case 2:
		return lo + 1
	case 3:
		return hi - 1
	case 4:
		return 0
	case 5:
		return -1
	case 6:
		return 1
	case 7:
		return int64(g.pick(256)) - 128
	}
	if w == 8 {
		return int64(g.r.Uint64())
	}
	span := uint64(hi-lo) + 1
	return lo + int64(g.r.Uint64()%span)
}

func (g *Gen) uintVal(w int) uint64 {
	hi := uintMax(w)
	switch g.pick(8) {
	case 0:
		return 0
	case 1:
		return hi
	case 2:
		return hi - 1
	case 3:
		return 1
	case 4:
		return hi/2 + 1
	case 5:
		return hi / 2
	}
	if w == 8 {
		return g.r.Uint64()
	}
	return g.r.Uint64() % (hi + 1)
}

// signedArg wraps v in one of the Go integer types that can hold it
func (g *Gen) signedArg(v int64) Arg {
	var ks []int
	ks = append(ks, KInt, KInt64)
	if v >= math.MinInt32 && v <= math.MaxInt32 {
		ks = append(ks, KInt32)
	}
	if v >= math.MinInt16 && v <= math.MaxInt16 {
		ks = append(ks, KInt16)
	}
	if v >= math.MinInt8 && v <= math.MaxInt8 {
		ks = append(ks, KInt8)
	}
	if v >= 0 {
		u := uint64(v)
		ks = append(ks, KUint, KUint64)
		if u <= math.MaxUint32 {
			ks = append(ks, KUint32)
		}
		if u <= math.MaxUint16 {
			ks = append(ks, KUint16)
		}
		if u <= math.MaxUint8 {
			ks = append(ks, KUint8)
		}
	}
	k := ks[g.pick(len(ks))]
	if k >= KUint {
		return Arg{T: 'i', IK: k, U: uint64(v)}
	}
	return Arg{T: 'i', IK: k, I: v}
}

func (g *Gen) unsignedArg(u uint64) Arg {
	var ks []int
	ks = append(ks, KUint, KUint64)
	if u <= math.MaxUint32 {
		ks = append(ks, KUint32)
	}
	if u <= math.MaxUint16 {
		ks = append(ks, KUint16)
	}
	if u <= math.MaxUint8 {
		ks = append(ks, KUint8)
	}
	if u <= math.MaxInt64 {
		ks = append(ks, KInt, KInt64)
		if u <= math.MaxInt32 {
			ks = append(ks, KInt32)
		}
		if u <= math.MaxInt16 {
			ks = append(ks, KInt16)
		}
		if u <= math.MaxInt8 {
			ks = append(ks, KInt8)
		}
	}
	k := ks[g.pick(len(ks))]
	if k >= KUint {
		return Arg{T: 'i', IK: k, U: u}
	}
	return Arg{T: 'i', IK: k, I: int64(u)}
}

var f32Special = []uint32{0, 0x80000000, 1, 0x80000001, 0x007fffff, 0x00800000, 0x3f800000, 0xbf800000,
	0x7f7fffff, 0xff7fffff, 0x3dcccccd, 0x40490fdb, 0x7f7ffffe, 0x00000002, 0x33800000, 0x4b000000, 0x4effffff,
	// 7.038531e-26: its shortest decimal, read at 64 bits and narrowed afterwards, gives the neighbouring float32
	0x15ae43fd, 0x95ae43fd}
var f64Special = []uint64{0, 0x8000000000000000, 1, 0x8000000000000001, 0x000fffffffffffff, 0x0010000000000000,
	0x3ff0000000000000, 0xbff0000000000000, 0x7fefffffffffffff, 0xffefffffffffffff, 0x3fb999999999999a,
	0x400921fb54442d18, 0x47efffffe0000000, 0xc7efffffe0000000, 0x36a0000000000000, 0x3690000000000000,
	0x3810000000000000, 0x380fffffffffffff, 0x4330000000000000, 0x43e0000000000000}

func (g *Gen) f32Bits() uint32 {
	if g.chance(0.4) {
		return f32Special[g.pick(len(f32Special))]
	}
	for {
		b := g.r.Uint32()
		if (b>>23)&0xff != 0xff {
			return b
		}
	}
}

func (g *Gen) f64Bits() uint64 {
	if g.chance(0.4) {
		return f64Special[g.pick(len(f64Special))]
	}
	for {
		b := g.r.Uint64()
		if (b>>52)&0x7ff != 0x7ff {
			return b
		}
	}
}

// a float64 that fits F4 (|v| <= MaxFloat32), as bits
func (g *Gen) f64BitsForF4() uint64 {
	switch g.pick(4) {
	case 0:
		return math.Float64bits(float64(math.Float32frombits(g.f32Bits())))
	case 1:
		// neighbours of a float32 value in float64: exercises rounding
		v := float64(math.Float32frombits(g.f32Bits()))
		b := math.Float64bits(v)
		d := uint64(g.pick(5)) + uint64(g.pick(3))<<28
		if g.chance(0.5) {
			b += d
		} else if b&0x7fffffffffffffff > d {
			b -= d
		}
		if f := math.Float64frombits(b); math.IsNaN(f) || math.IsInf(f, 0) || math.Abs(f) > math.MaxFloat32 {
			return math.Float64bits(v)
		}
		return b
	}
	for {
		b := g.f64Bits()
		if math.Abs(math.Float64frombits(b)) <= math.MaxFloat32 {
			return b
		}
	}
}

// sizes biased to the length-byte boundaries
func (g *Gen) size(max int) int {
	var cands []int
	switch g.pick(10) {
	case 0:
		cands = []int{255, 256, 257}
	case 1:
		if max >= 65537 {
			cands = []int{65535, 65536, 65537}
		} else {
			cands = []int{254, 255, 256}
		}
	case 2, 3:
		return g.pick(4)
	case 4:
		return g.pick(40)
	case 5:
		return 0
	default:
		return g.pick(9)
	}
	n := cands[g.pick(len(cands))]
	if n > max {
		n = max
	}
	return n
}

// valueArgs builds n arguments of a leaf, as repeat blocks plus individual values
func (g *Gen) valueArgs(n int, one func() Arg) []Arg {
	var as []Arg
	left := n
	for left > 0 {
		if left > 12 && g.chance(0.7) {
			k := left - g.pick(6)
			a := one()
			as = append(as, Arg{T: '*', N: int64(k), Sub: &a})
			left -= k
		} else {
			as = append(as, one())
			left--
		}
	}
	return as
}

type leafSpec struct {
	op string
	w  int
}

var leafSpecs = []leafSpec{{"NB", 1}, {"NO", 1}, {"NI", 1}, {"NI", 2}, {"NI", 4}, {"NI", 8},
	{"NU", 1}, {"NU", 2}, {"NU", 4}, {"NU", 8}, {"NF", 4}, {"NF", 8}, {"NA", 1}}

func (g *Gen) asciiBytes(n int) []byte {
	b := make([]byte, n)
	mode := g.pick(4)
	for i := range b {
		switch mode {
		case 0:
			b[i] = byte(32 + g.pick(95))
		case 1:
			b[i] = byte(g.pick(128))
		case 2:
			b[i] = "aZ09 \"\\\x00\x7f\n\t./<>[]"[g.pick(17)]
		default:
			b[i] = byte('a' + g.pick(26))
		}
	}
	return b
}

// oneValue returns a generator of in-domain values for the leaf
func (g *Gen) oneValue(sp leafSpec) func() Arg {
	switch sp.op {
	case "NB":
		return func() Arg {
			if g.chance(0.1) {
				return Arg{T: 's', S: []byte(fmt.Sprintf("0b%b", g.pick(256)))}
			}
			return Arg{T: 'i', IK: KInt, I: int64([]int{0, 1, 127, 128, 255, g.pick(256)}[g.pick(6)])}
		}
	case "NO":
		return func() Arg { return Arg{T: 'b', B: g.chance(0.5)} }
	case "NI":
		return func() Arg { return g.signedArg(g.intVal(sp.w)) }
	case "NU":
		return func() Arg { return g.unsignedArg(g.uintVal(sp.w)) }
	case "NF":
		if sp.w == 4 {
			return func() Arg {
				switch g.pick(3) {
				case 0:
					return Arg{T: '4', U: uint64(g.f32Bits())}
				case 1:
					return Arg{T: '8', U: g.f64BitsForF4()}
				}
				return g.signedArg(int64(g.pick(1<<20)) - 1<<19)
			}
		}
		return func() Arg {
			switch g.pick(4) {
			case 0:
				return Arg{T: '4', U: uint64(g.f32Bits())}
			case 1, 2:
				return Arg{T: '8', U: g.f64Bits()}
			}
			return g.signedArg(g.intVal(8))
		}
	}
	panic("oneValue")
}

// leaf adds a leaf item; with vars > 0 some positions are variables
func (g *Gen) leaf(sp leafSpec, n int, withVars bool) int {
	g.count("leaf:" + sp.op + fmt.Sprint(sp.w))
	if sp.op == "NA" {
		if withVars && g.chance(0.5) {
			mn, mx := int64(0), int64(-1)
			switch g.pick(4) {
			case 0:
				mn = int64(g.pick(5))
				mx = mn
			case 1:
				mn = int64(g.pick(5))
			case 2:
				mx = int64(g.pick(8))
			case 3:
				mn = int64(g.pick(4))
				mx = mn + int64(g.pick(5))
			}
			return g.add(Step{Op: "NAV", Name: g.freshName(), Mn: mn, Mx: mx})
		}
		if n > 300 {
			return g.add(Step{Op: "NAR", B1: byte(g.pick(128)), N: int64(n)})
		}
		return g.add(Step{Op: "NA", S: g.asciiBytes(n)})
	}
	one := g.oneValue(sp)
	as := g.valueArgs(n, one)
	if withVars {
		// replace some individual positions by variable names
		for i := range as {
			if as[i].T != '*' && g.chance(0.4) {
				as[i] = Arg{T: 's', S: g.freshName()}
			}
		}
		if len(as) == 0 || g.chance(0.3) {
			as = append(as, Arg{T: 's', S: g.freshName()})
		}
	}
	return g.add(Step{Op: sp.op, W: sp.w, Args: as})
}

type treeOpts struct {
	depth    int
	vars     bool // variables allowed
	ellipsis bool // ellipses allowed
	maxLeaf  int
}

// tree adds an item tree and returns the index of its root
func (g *Gen) tree(o treeOpts) int {
	if o.depth <= 0 || g.chance(0.35) {
		sp := leafSpecs[g.pick(len(leafSpecs))]
		n := g.size(o.maxLeaf)
		return g.leaf(sp, n, o.vars && g.chance(0.5))
	}
	g.count("list")
	n := g.pick(5)
	if g.chance(0.08) {
		n = []int{255, 256, 257}[g.pick(3)]
	}
	var as []Arg
	if n >= 255 {
		// many references to one shared child
		child := g.tree(treeOpts{0, false, false, 3})
		as = append(as, Arg{T: '*', N: int64(n), Sub: &Arg{T: 'r', Ref: child}})
	} else {
		ellipsisUsed := false
		for i := 0; i < n; i++ {
			switch {
			case o.vars && g.chance(0.2):
				as = append(as, Arg{T: 's', S: g.freshName()})
			case o.ellipsis && !ellipsisUsed && i > 0 && g.chance(0.3):
				ellipsisUsed = true
				as = append(as, Arg{T: 's', S: []byte("...")})
			default:
				c := g.tree(treeOpts{o.depth - 1, o.vars, o.ellipsis, o.maxLeaf})
				as = append(as, Arg{T: 'r', Ref: c})
			}
		}
	}
	return g.add(Step{Op: "NL", Args: as})
}

var directions = []string{"H->E", "H<-E", "H<->E"}
var msgNames = []string{"", "Name", "AreYouThere", "établi", "名前", "a//b", "x.y", "S1F1", "W", "[W]", "H->E", "<", "né", "q\"uote"}

func (g *Gen) sysBytes() []byte {
	switch g.pick(6) {
	case 0:
		return []byte{0, 0, 0, 0}
	case 1:
		return []byte{255, 255, 255, 255}
	case 2:
		n := g.pick(7)
		b := make([]byte, n)
		g.r.Read(b)
		return b
	}
	b := make([]byte, 4)
	g.r.Read(b)
	return b
}

func (g *Gen) sessionID() int {
	switch g.pick(6) {
	case 0:
		return 0
	case 1:
		return 65535
	case 2:
		return 256
	case 3:
		return 255
	}
	return g.pick(65536)
}

// hsmsMsg adds a complete message around item it
func (g *Gen) hsmsMsg(it int) int {
	f := g.pick(256)
	w := 0
	if f%2 == 1 && g.chance(0.5) {
		w = 1
	}
	stream := []int{0, 1, 127, g.pick(128)}[g.pick(4)]
	return g.add(Step{Op: "NH", Name: []byte(msgNames[g.pick(len(msgNames))]), Stream: stream, Func: f, WBit: w,
		Dir: []byte(directions[g.pick(3)]), Ref: it, Sid: g.sessionID(), Sys: g.sysBytes()})
}
