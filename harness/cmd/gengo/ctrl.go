package main

// ctrl.go — translates the control-message code of pkg/ast/hsms.go into
// Gallina, statement by statement. Recognised statement forms:
//
//   header := make([]byte, 10)
//   header[c] = e         e ::= constant | byte-typed parameter | byte(p >> 8) | byte(p)
//                               | slice-parameter[c] | msg.header[c]
//   if p == c { header[c] = e } else { header[c] = e }
//   if x.Type() != "name" { panic(...) }
//   msg, _ := x.(*ControlMessage)
//   return &ControlMessage{header}
//
// and for Type(): `if msg.header[c] != 0 { return "s" }` followed by a switch
// over msg.header[c] whose cases return string constants.

import (
	"fmt"
	"go/ast"
	"go/token"
	"strings"
)

type ctrlTr struct {
	p        *pkgInfo
	params   map[string]string // Go parameter -> kind: "u16", "byte", "bytes", "msg"
	problems []string
	maxIdx   map[string]int // highest index used on each slice parameter
	reqVar   string         // local bound to the request's *ControlMessage
	reqParam string
}

func (t *ctrlTr) problem(n ast.Node, msg string) {
	t.problems = append(t.problems, fmt.Sprintf("%s: %s", t.p.fset.Position(n.Pos()), msg))
}

func byteLit(v int64) string { return fmt.Sprintf("(z2b %d)", v) }

// expression of type byte
func (t *ctrlTr) expr(e ast.Expr) string {
	if v, ok := t.p.constInt(e); ok {
		return byteLit(v)
	}
	switch x := e.(type) {
	case *ast.Ident:
		if t.params[x.Name] == "byte" {
			return x.Name
		}
	case *ast.CallExpr: // byte(p) or byte(p >> 8)
		if id, ok := x.Fun.(*ast.Ident); ok && id.Name == "byte" && len(x.Args) == 1 {
			switch a := x.Args[0].(type) {
			case *ast.Ident:
				if t.params[a.Name] == "u16" {
					return fmt.Sprintf("(z2b %s)", a.Name)
				}
			case *ast.BinaryExpr:
				if id2, ok := a.X.(*ast.Ident); ok && a.Op == token.SHR && t.params[id2.Name] == "u16" {
					if sh, ok := t.p.constInt(a.Y); ok {
						return fmt.Sprintf("(z2b (%s / %d))", id2.Name, int64(1)<<uint(sh))
					}
				}
			}
		}
	case *ast.IndexExpr:
		idx, ok := t.p.constInt(x.Index)
		if ok {
			switch b := x.X.(type) {
			case *ast.Ident:
				if t.params[b.Name] == "bytes" {
					if int(idx) > t.maxIdx[b.Name] {
						t.maxIdx[b.Name] = int(idx)
					}
					return fmt.Sprintf("(nth %d %s x00)", idx, b.Name)
				}
			case *ast.SelectorExpr: // msg.header[c]
				if id, ok := b.X.(*ast.Ident); ok && id.Name == t.reqVar && b.Sel.Name == "header" {
					return fmt.Sprintf("(nth %d %s x00)", idx, t.reqParam)
				}
			}
		}
	}
	t.problem(e, "unrecognised expression")
	return "x00 (* UNKNOWN EXPRESSION *)"
}

func (t *ctrlTr) headerAssign(s ast.Stmt) (int64, string, bool) {
	as, ok := s.(*ast.AssignStmt)
	if !ok || as.Tok != token.ASSIGN || len(as.Lhs) != 1 || len(as.Rhs) != 1 {
		return 0, "", false
	}
	ix, ok := as.Lhs[0].(*ast.IndexExpr)
	if !ok {
		return 0, "", false
	}
	id, ok := ix.X.(*ast.Ident)
	if !ok || id.Name != "header" {
		return 0, "", false
	}
	c, ok := t.p.constInt(ix.Index)
	if !ok {
		return 0, "", false
	}
	return c, t.expr(as.Rhs[0]), true
}

func (t *ctrlTr) constructor(fd *ast.FuncDecl, coqName string) string {
	t.params = map[string]string{}
	t.maxIdx = map[string]int{}
	t.reqVar, t.reqParam = "", ""
	var sig []string
	for _, f := range fd.Type.Params.List {
		kind := ""
		switch ty := f.Type.(type) {
		case *ast.Ident:
			switch ty.Name {
			case "uint16":
				kind = "u16"
			case "byte", "uint8":
				kind = "byte"
			case "HSMSMessage":
				kind = "msg"
			}
		case *ast.ArrayType:
			if id, ok := ty.Elt.(*ast.Ident); ok && ty.Len == nil && id.Name == "byte" {
				kind = "bytes"
			}
		}
		for _, n := range f.Names {
			t.params[n.Name] = kind
			switch kind {
			case "u16":
				sig = append(sig, fmt.Sprintf("(%s : Z)", n.Name))
			case "byte":
				sig = append(sig, fmt.Sprintf("(%s : byte)", n.Name))
			case "bytes":
				sig = append(sig, fmt.Sprintf("(%s : bytes)", n.Name))
			case "msg":
				sig = append(sig, fmt.Sprintf("(%s : bytes)", n.Name)) // the header of a control message
				t.reqParam = n.Name
			default:
				t.problem(f, "unrecognised parameter type")
			}
		}
	}
	var guards []string
	var lets []string
	started, returned := false, false
	for _, s := range fd.Body.List {
		switch x := s.(type) {
		case *ast.AssignStmt:
			// header := make([]byte, 10)
			if x.Tok == token.DEFINE && len(x.Lhs) == 1 && len(x.Rhs) == 1 {
				if id, ok := x.Lhs[0].(*ast.Ident); ok && id.Name == "header" {
					if call, ok := x.Rhs[0].(*ast.CallExpr); ok {
						if f, ok := call.Fun.(*ast.Ident); ok && f.Name == "make" && len(call.Args) == 2 {
							if n, ok := t.p.constInt(call.Args[1]); ok {
								lets = append(lets, fmt.Sprintf("let header := repeat x00 %d in", n))
								started = true
								continue
							}
						}
					}
				}
			}
			// msg, _ := req.(*ControlMessage)
			if x.Tok == token.DEFINE && len(x.Lhs) == 2 && len(x.Rhs) == 1 {
				if ta, ok := x.Rhs[0].(*ast.TypeAssertExpr); ok {
					if id, ok := ta.X.(*ast.Ident); ok && id.Name == t.reqParam {
						if l, ok := x.Lhs[0].(*ast.Ident); ok {
							t.reqVar = l.Name
							continue
						}
					}
				}
			}
			if c, e, ok := t.headerAssign(s); ok && started {
				lets = append(lets, fmt.Sprintf("let header := set_b %d %s header in", c, e))
				continue
			}
			t.problem(s, "unrecognised assignment")
		case *ast.IfStmt:
			// if x.Type() != "name" { panic }
			if be, ok := x.Cond.(*ast.BinaryExpr); ok && be.Op == token.NEQ && x.Else == nil {
				if call, ok := be.X.(*ast.CallExpr); ok {
					if sel, ok := call.Fun.(*ast.SelectorExpr); ok && sel.Sel.Name == "Type" {
						if id, ok := sel.X.(*ast.Ident); ok && id.Name == t.reqParam {
							if name, ok := t.p.constString(be.Y); ok && len(x.Body.List) == 1 {
								if es, ok := x.Body.List[0].(*ast.ExprStmt); ok {
									if c, ok := es.X.(*ast.CallExpr); ok {
										if f, ok := c.Fun.(*ast.Ident); ok && f.Name == "panic" {
											guards = append(guards, fmt.Sprintf("bytes_eqb (gen_ctl_type %s) %s", t.reqParam, coqStr(name)))
											continue
										}
									}
								}
							}
						}
					}
				}
			}
			// if p == c { header[i] = a } else { header[i] = b }
			if be, ok := x.Cond.(*ast.BinaryExpr); ok && be.Op == token.EQL && x.Else != nil && started {
				if id, ok := be.X.(*ast.Ident); ok && t.params[id.Name] == "byte" {
					if cv, ok := t.p.constInt(be.Y); ok {
						if eb, ok := x.Else.(*ast.BlockStmt); ok && len(x.Body.List) == 1 && len(eb.List) == 1 {
							c1, e1, ok1 := t.headerAssign(x.Body.List[0])
							c2, e2, ok2 := t.headerAssign(eb.List[0])
							if ok1 && ok2 && c1 == c2 {
								lets = append(lets, fmt.Sprintf("let header := set_b %d (if byte_eqb %s %s then %s else %s) header in", c1, id.Name, byteLit(cv), e1, e2))
								continue
							}
						}
					}
				}
			}
			t.problem(s, "unrecognised if statement")
		case *ast.ReturnStmt:
			// return &ControlMessage{header}
			if len(x.Results) == 1 {
				if u, ok := x.Results[0].(*ast.UnaryExpr); ok && u.Op == token.AND {
					if cl, ok := u.X.(*ast.CompositeLit); ok && len(cl.Elts) == 1 {
						if id, ok := cl.Elts[0].(*ast.Ident); ok && id.Name == "header" {
							returned = true
							continue
						}
					}
				}
			}
			t.problem(s, "unrecognised return")
		default:
			t.problem(s, "unrecognised statement")
		}
	}
	if !returned {
		t.problem(fd, "no `return &ControlMessage{header}`")
	}
	for name, mx := range t.maxIdx {
		guards = append(guards, fmt.Sprintf("(%d <? length %s)%%nat", mx, name))
	}
	var sb strings.Builder
	fmt.Fprintf(&sb, "Definition %s %s : option bytes :=\n", coqName, strings.Join(sig, " "))
	body := "  " + strings.Join(lets, "\n  ") + "\n  Some header"
	if len(guards) > 0 {
		// deterministic order
		sortStrings(guards)
		fmt.Fprintf(&sb, "  if negb (%s) then None else\n", strings.Join(guards, " && "))
	}
	sb.WriteString(body + ".\n\n")
	return sb.String()
}

func sortStrings(s []string) {
	for i := 1; i < len(s); i++ {
		for j := i; j > 0 && s[j] < s[j-1]; j-- {
			s[j], s[j-1] = s[j-1], s[j]
		}
	}
}

func (t *ctrlTr) typeFn(fd *ast.FuncDecl) string {
	recv := fd.Recv.List[0].Names[0].Name
	hdrIdx := func(e ast.Expr) (int64, bool) {
		ix, ok := e.(*ast.IndexExpr)
		if !ok {
			return 0, false
		}
		sel, ok := ix.X.(*ast.SelectorExpr)
		if !ok || sel.Sel.Name != "header" {
			return 0, false
		}
		if id, ok := sel.X.(*ast.Ident); !ok || id.Name != recv {
			return 0, false
		}
		return t.p.constInt(ix.Index)
	}
	retStr := func(b []ast.Stmt) (string, bool) {
		if len(b) != 1 {
			return "", false
		}
		r, ok := b[0].(*ast.ReturnStmt)
		if !ok || len(r.Results) != 1 {
			return "", false
		}
		return t.p.constString(r.Results[0])
	}
	var sb strings.Builder
	sb.WriteString("Definition gen_ctl_type (h : bytes) : bytes :=\n")
	closing := ""
	done := false
	for _, s := range fd.Body.List {
		switch x := s.(type) {
		case *ast.IfStmt:
			if be, ok := x.Cond.(*ast.BinaryExpr); ok && be.Op == token.NEQ && x.Else == nil {
				if i, ok := hdrIdx(be.X); ok {
					if c, ok := t.p.constInt(be.Y); ok {
						if r, ok := retStr(x.Body.List); ok {
							fmt.Fprintf(&sb, "  if negb (byte_eqb (nth %d h x00) %s) then %s else\n", i, byteLit(c), coqStr(r))
							continue
						}
					}
				}
			}
			t.problem(s, "Type(): unrecognised if")
		case *ast.SwitchStmt:
			i, ok := hdrIdx(x.Tag)
			if !ok {
				t.problem(s, "Type(): unrecognised switch tag")
				continue
			}
			fmt.Fprintf(&sb, "  match b2z (nth %d h x00) with\n", i)
			def := ""
			for _, cc := range x.Body.List {
				c := cc.(*ast.CaseClause)
				r, ok := retStr(c.Body)
				if !ok {
					t.problem(c, "Type(): case does not return a string constant")
					continue
				}
				if c.List == nil {
					def = r
					continue
				}
				for _, e := range c.List {
					v, ok := t.p.constInt(e)
					if !ok {
						t.problem(e, "Type(): non-constant case")
						continue
					}
					fmt.Fprintf(&sb, "  | %d => %s\n", v, coqStr(r))
				}
			}
			fmt.Fprintf(&sb, "  | _ => %s\n  end", coqStr(def))
			done = true
		default:
			t.problem(s, "Type(): unrecognised statement")
		}
	}
	if !done {
		sb.WriteString("  []")
	}
	sb.WriteString(closing + ".\n\n")
	return sb.String()
}

// ToBytes: result := make(..); result = append(result, c...); result = append(result, msg.header...); return result
func (t *ctrlTr) toBytesFn(fd *ast.FuncDecl) string {
	var prefix []string
	sawHeader := false
	for _, s := range fd.Body.List {
		as, ok := s.(*ast.AssignStmt)
		if !ok || len(as.Rhs) != 1 {
			continue
		}
		call, ok := as.Rhs[0].(*ast.CallExpr)
		if !ok {
			continue
		}
		f, ok := call.Fun.(*ast.Ident)
		if !ok || f.Name != "append" {
			continue
		}
		if call.Ellipsis != token.NoPos {
			if sel, ok := call.Args[1].(*ast.SelectorExpr); ok && sel.Sel.Name == "header" {
				sawHeader = true
				continue
			}
			t.problem(s, "ToBytes(): unrecognised append")
			continue
		}
		if sawHeader {
			t.problem(s, "ToBytes(): bytes appended after the header")
		}
		for _, a := range call.Args[1:] {
			v, ok := t.p.constInt(a)
			if !ok {
				t.problem(a, "ToBytes(): non-constant byte")
				continue
			}
			prefix = append(prefix, byteLit(v))
		}
	}
	if !sawHeader {
		t.problem(fd, "ToBytes(): header not appended")
	}
	return fmt.Sprintf("Definition gen_ctl_to_bytes (h : bytes) : bytes := [%s] ++ h.\n\n", strings.Join(prefix, "; "))
}

var ctrlFuncs = [][2]string{
	{"NewHSMSMessageSelectReq", "gen_select_req"},
	{"NewHSMSMessageSelectRsp", "gen_select_rsp"},
	{"NewHSMSMessageDeselectReq", "gen_deselect_req"},
	{"NewHSMSMessageDeselectRsp", "gen_deselect_rsp"},
	{"NewHSMSMessageLinktestReq", "gen_linktest_req"},
	{"NewHSMSMessageLinktestRsp", "gen_linktest_rsp"},
	{"NewHSMSMessageRejectReq", "gen_reject_req"},
	{"NewHSMSMessageSeparateReq", "gen_separate_req"},
}

func genCtrl(p *pkgInfo) string {
	var sb strings.Builder
	sb.WriteString(genHeader)
	sb.WriteString("Fixpoint set_b (i : nat) (v : byte) (l : bytes) : bytes :=\n  match l, i with\n  | [], _ => []\n  | _ :: r, O => v :: r\n  | x :: r, S i' => x :: set_b i' v r\n  end.\n\n")
	t := &ctrlTr{p: p}
	if fd := p.funcDecl("Type", "ControlMessage"); fd != nil {
		sb.WriteString(t.typeFn(fd))
	} else {
		t.problems = append(t.problems, "ControlMessage.Type not found")
		sb.WriteString("Definition gen_ctl_type (h : bytes) : bytes := [].\n\n")
	}
	if fd := p.funcDecl("ToBytes", "ControlMessage"); fd != nil {
		sb.WriteString(t.toBytesFn(fd))
	} else {
		t.problems = append(t.problems, "ControlMessage.ToBytes not found")
		sb.WriteString("Definition gen_ctl_to_bytes (h : bytes) : bytes := [].\n\n")
	}
	for _, f := range ctrlFuncs {
		fd := p.funcDecl(f[0], "")
		if fd == nil {
			t.problems = append(t.problems, f[0]+" not found")
			continue
		}
		sb.WriteString(t.constructor(fd, f[1]))
	}
	fmt.Fprintf(&sb, "Definition gen_ctrl_problems : nat := %d.\n", len(t.problems))
	for _, pr := range t.problems {
		fmt.Fprintf(&sb, "(* PROBLEM: %s *)\n", strings.ReplaceAll(pr, "*)", "* )"))
	}
	return sb.String()
}
