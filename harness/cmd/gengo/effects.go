package main

// effects.go — a per-function summary of memory effects, from the source:
//
//   * package-level variables (any `var` at package scope) and functions that
//     assign to one;
//   * for every function: the named types it writes through (a field or element
//     assignment, ++/--, op=, append-assign, channel send or close whose root
//     is the receiver, a parameter, or a local of a named struct/pointer type);
//   * for exported functions and methods: how each returned slice or map was
//     obtained (fresh local / a field of the receiver or of a parameter / a
//     parameter itself / unknown), and whether a slice or map parameter is
//     stored without copying (into a composite literal, a field, or returned);
//   * go statements.
//
// The analysis is syntactic over go/ast with go/types for identifier
// resolution. It is deliberately conservative: anything it does not recognise
// as fresh is "unknown", which fails the obligation in EffectsTie.v.

import (
	"fmt"
	"go/ast"
	"go/token"
	"go/types"
	"sort"
	"strings"
)

type fnEffect struct {
	pkg, name    string
	exported     bool
	writesGlobal []string
	mutates      []string // named types written through
	returns      []string // classification of returned slices/maps
	storesParam  []string
	goStmts      int
}

func isSliceOrMap(t types.Type) bool {
	if t == nil {
		return false
	}
	switch t.Underlying().(type) {
	case *types.Slice, *types.Map:
		return true
	}
	return false
}

func namedOf(t types.Type) string {
	for {
		switch x := t.(type) {
		case *types.Pointer:
			t = x.Elem()
			continue
		case *types.Named:
			return x.Obj().Name()
		}
		return ""
	}
}

type fnAnalysis struct {
	p      *pkgInfo
	fd     *ast.FuncDecl
	params map[types.Object]bool
	recv   types.Object
	fresh  map[types.Object]bool // locals known to hold freshly allocated slices/maps
	eff    *fnEffect
	fns    map[string]bool // names of package functions known to return fresh slices/maps
}

func (a *fnAnalysis) obj(id *ast.Ident) types.Object {
	if o := a.p.info.Uses[id]; o != nil {
		return o
	}
	return a.p.info.Defs[id]
}

// root identifier of an l-value / expression like x.f[i].g
func rootIdent(e ast.Expr) *ast.Ident {
	for {
		switch x := e.(type) {
		case *ast.Ident:
			return x
		case *ast.SelectorExpr:
			e = x.X
		case *ast.IndexExpr:
			e = x.X
		case *ast.SliceExpr:
			e = x.X
		case *ast.StarExpr:
			e = x.X
		case *ast.ParenExpr:
			e = x.X
		default:
			return nil
		}
	}
}

// classify how a slice/map valued expression was obtained
func (a *fnAnalysis) classify(e ast.Expr) string {
	switch x := e.(type) {
	case *ast.ParenExpr:
		return a.classify(x.X)
	case *ast.CompositeLit:
		return "fresh"
	case *ast.CallExpr:
		if id, ok := x.Fun.(*ast.Ident); ok {
			switch id.Name {
			case "make":
				return "fresh"
			case "append":
				if len(x.Args) > 0 {
					return a.classify(x.Args[0])
				}
			}
			if a.fns[id.Name] {
				return "fresh"
			}
		}
		if sel, ok := x.Fun.(*ast.SelectorExpr); ok {
			// conversions and well-known allocating library calls
			if pk, ok := sel.X.(*ast.Ident); ok {
				switch pk.Name + "." + sel.Sel.Name {
				case "strings.Split", "strings.Fields", "bytes.Repeat", "hex.DecodeString":
					return "fresh"
				}
			}
			if a.fns["."+sel.Sel.Name] {
				return "fresh" // a method of this package known to return fresh storage
			}
		}
		if tv, ok := a.p.info.Types[x.Fun]; ok && tv.IsType() {
			return "fresh" // []byte(s)
		}
		return "unknown"
	case *ast.Ident:
		if x.Name == "nil" {
			return "fresh"
		}
		o := a.obj(x)
		if o == nil {
			return "unknown"
		}
		if a.params[o] {
			return "param:" + x.Name
		}
		if a.fresh[o] {
			return "fresh"
		}
		if o.Parent() == o.Pkg().Scope() {
			return "global:" + x.Name
		}
		return "unknown"
	case *ast.SelectorExpr:
		if r := rootIdent(x); r != nil {
			o := a.obj(r)
			if o != nil && (o == a.recv || a.params[o]) {
				return "field:" + r.Name + "." + x.Sel.Name
			}
			if o != nil && o.Pkg() != nil && o.Parent() == o.Pkg().Scope() {
				return "global:" + r.Name
			}
			if o != nil {
				// a field of an object held in a local variable (allocated in this call tree)
				return "local-field:" + namedOf(o.Type()) + "." + x.Sel.Name
			}
		}
		return "field:?." + x.Sel.Name
	case *ast.SliceExpr:
		return a.classify(x.X)
	case *ast.IndexExpr:
		return "unknown"
	}
	return "unknown"
}

func (a *fnAnalysis) noteWrite(lhs ast.Expr) {
	r := rootIdent(lhs)
	if r == nil {
		return
	}
	if _, plain := lhs.(*ast.Ident); plain {
		// assignment to the variable itself
		o := a.obj(r)
		if o != nil && o.Pkg() != nil && o.Parent() == o.Pkg().Scope() {
			if _, isVar := o.(*types.Var); isVar {
				a.eff.writesGlobal = append(a.eff.writesGlobal, r.Name)
			}
		}
		return
	}
	o := a.obj(r)
	if o == nil {
		return
	}
	if o.Pkg() != nil && o.Parent() == o.Pkg().Scope() {
		a.eff.writesGlobal = append(a.eff.writesGlobal, r.Name)
		return
	}
	// a write through r: which named type is being mutated?
	if a.fresh[o] {
		return // element of a fresh local slice/map
	}
	tn := namedOf(o.Type())
	if tn == "" {
		if isSliceOrMap(o.Type()) {
			if a.params[o] {
				tn = "param-slice:" + r.Name
			} else {
				return // local slice/map not known fresh: still local storage unless it aliases; see classify
			}
		} else {
			return
		}
	}
	a.eff.mutates = append(a.eff.mutates, tn)
}

func uniq(s []string) []string {
	sort.Strings(s)
	var r []string
	for i, x := range s {
		if i == 0 || x != s[i-1] {
			r = append(r, x)
		}
	}
	return r
}

func analyseFunc(p *pkgInfo, pkgName string, fd *ast.FuncDecl, fresh map[string]bool) *fnEffect {
	name := fd.Name.Name
	exported := fd.Name.IsExported()
	a := &fnAnalysis{p: p, fd: fd, params: map[types.Object]bool{}, fresh: map[types.Object]bool{}, fns: fresh}
	if fd.Recv != nil && len(fd.Recv.List) == 1 {
		t := fd.Recv.List[0].Type
		if st, ok := t.(*ast.StarExpr); ok {
			t = st.X
		}
		if id, ok := t.(*ast.Ident); ok {
			name = id.Name + "." + name
			exported = exported && id.IsExported()
		}
		if len(fd.Recv.List[0].Names) == 1 {
			a.recv = p.info.Defs[fd.Recv.List[0].Names[0]]
		}
	}
	a.eff = &fnEffect{pkg: pkgName, name: name, exported: exported}
	for _, f := range fd.Type.Params.List {
		for _, n := range f.Names {
			if o := p.info.Defs[n]; o != nil {
				a.params[o] = true
			}
		}
	}
	if fd.Body == nil {
		return a.eff
	}
	// pass 1: locals that hold fresh slices/maps (every assignment to them is fresh)
	cand := map[types.Object]bool{}
	bad := map[types.Object]bool{}
	ast.Inspect(fd.Body, func(n ast.Node) bool {
		switch x := n.(type) {
		case *ast.AssignStmt:
			if len(x.Lhs) == len(x.Rhs) {
				for i, l := range x.Lhs {
					id, ok := l.(*ast.Ident)
					if !ok {
						continue
					}
					o := a.obj(id)
					if o == nil || a.params[o] || !isSliceOrMap(o.Type()) {
						continue
					}
					// judged after the fixpoint below
					_ = i
					cand[o] = true
				}
			}
		case *ast.ValueSpec:
			for _, id := range x.Names {
				if o := p.info.Defs[id]; o != nil && isSliceOrMap(o.Type()) {
					cand[o] = true
				}
			}
		}
		return true
	})
	for changed := true; changed; {
		changed = false
		for o := range cand {
			if !bad[o] {
				a.fresh[o] = true
			}
		}
		ast.Inspect(fd.Body, func(n ast.Node) bool {
			switch x := n.(type) {
			case *ast.AssignStmt:
				if len(x.Lhs) != len(x.Rhs) {
					// multi-value call: results of unknown provenance
					for _, l := range x.Lhs {
						if id, ok := l.(*ast.Ident); ok {
							if o := a.obj(id); o != nil && cand[o] && !bad[o] {
								if call, ok := x.Rhs[0].(*ast.CallExpr); ok {
									if sel, ok := call.Fun.(*ast.SelectorExpr); ok && a.fns["."+sel.Sel.Name] {
										continue
									}
									if fid, ok := call.Fun.(*ast.Ident); ok && a.fns[fid.Name] {
										continue
									}
								}
								bad[o] = true
								changed = true
							}
						}
					}
					return true
				}
				for i, l := range x.Lhs {
					id, ok := l.(*ast.Ident)
					if !ok {
						continue
					}
					o := a.obj(id)
					if o == nil || !cand[o] || bad[o] {
						continue
					}
					if c := a.classify(x.Rhs[i]); c != "fresh" {
						bad[o] = true
						delete(a.fresh, o)
						changed = true
					}
				}
			case *ast.ValueSpec:
				for i, id := range x.Names {
					o := p.info.Defs[id]
					if o == nil || !cand[o] || bad[o] || i >= len(x.Values) {
						continue
					}
					if c := a.classify(x.Values[i]); c != "fresh" {
						bad[o] = true
						delete(a.fresh, o)
						changed = true
					}
				}
			case *ast.RangeStmt:
				// range variables are copies of elements; slices of slices would alias, none here
			}
			return true
		})
		for o := range bad {
			delete(a.fresh, o)
		}
	}
	// pass 2: effects
	ast.Inspect(fd.Body, func(n ast.Node) bool {
		switch x := n.(type) {
		case *ast.AssignStmt:
			for _, l := range x.Lhs {
				if x.Tok == token.DEFINE {
					continue
				}
				a.noteWrite(l)
			}
			// stores of slice/map parameters into fields or composite literals
			for i, r := range x.Rhs {
				if i < len(x.Lhs) {
					if _, plain := x.Lhs[i].(*ast.Ident); !plain {
						if c := a.classify(r); strings.HasPrefix(c, "param:") && isSliceOrMap(a.p.info.Types[r].Type) {
							a.eff.storesParam = append(a.eff.storesParam, c)
						}
					}
				}
			}
		case *ast.IncDecStmt:
			a.noteWrite(x.X)
		case *ast.SendStmt:
			a.noteWrite(&ast.IndexExpr{X: x.Chan}) // a send mutates the channel's owner
		case *ast.GoStmt:
			a.eff.goStmts++
		case *ast.CallExpr:
			if id, ok := x.Fun.(*ast.Ident); ok && (id.Name == "close" || id.Name == "copy" || id.Name == "delete") && len(x.Args) > 0 {
				if id.Name == "copy" {
					// copy(dst, src) writes the elements of dst
					if c := a.classify(x.Args[0]); c != "fresh" {
						a.noteWrite(&ast.IndexExpr{X: x.Args[0]})
						if strings.HasPrefix(c, "field:") {
							a.eff.mutates = append(a.eff.mutates, "shared-slice:"+c)
						}
					}
				} else {
					a.noteWrite(&ast.IndexExpr{X: x.Args[0]})
				}
			}
			// sort.Slice and friends reorder their argument in place
			if sel, ok := x.Fun.(*ast.SelectorExpr); ok {
				if pk, ok := sel.X.(*ast.Ident); ok && pk.Name == "sort" && len(x.Args) > 0 {
					if c := a.classify(x.Args[0]); c != "fresh" {
						a.eff.mutates = append(a.eff.mutates, "sorted-in-place:"+c)
					}
				}
			}
		case *ast.CompositeLit:
			for _, el := range x.Elts {
				v := el
				if kv, ok := el.(*ast.KeyValueExpr); ok {
					v = kv.Value
				}
				if tv, ok := a.p.info.Types[v]; ok && isSliceOrMap(tv.Type) {
					if c := a.classify(v); c != "fresh" {
						// a struct literal that shares a slice/map it did not allocate
						if tvl, ok := a.p.info.Types[x]; ok {
							if _, isStruct := tvl.Type.Underlying().(*types.Struct); isStruct {
								a.eff.storesParam = append(a.eff.storesParam, "literal-shares:"+c)
							}
						}
					}
				}
			}
		case *ast.ReturnStmt:
			for _, r := range x.Results {
				if tv, ok := a.p.info.Types[r]; ok && isSliceOrMap(tv.Type) {
					a.eff.returns = append(a.eff.returns, a.classify(r))
				}
			}
		}
		return true
	})
	a.eff.writesGlobal = uniq(a.eff.writesGlobal)
	a.eff.mutates = uniq(a.eff.mutates)
	a.eff.returns = uniq(a.eff.returns)
	a.eff.storesParam = uniq(a.eff.storesParam)
	return a.eff
}

func coqStrList(xs []string) string {
	var parts []string
	for _, x := range xs {
		parts = append(parts, coqStr(x))
	}
	return "[" + strings.Join(parts, "; ") + "]"
}

func genEffects(pkgs map[string]*pkgInfo) string {
	var sb strings.Builder
	sb.WriteString(genHeader)
	sb.WriteString("Record fn_effect := { fe_pkg : bytes; fe_name : bytes; fe_exported : bool;\n  fe_writes_global : list bytes; fe_mutates : list bytes; fe_returns : list bytes; fe_stores : list bytes; fe_go : nat }.\n\n")
	names := make([]string, 0, len(pkgs))
	for n := range pkgs {
		names = append(names, n)
	}
	sort.Strings(names)
	var rows []string
	var globals []string
	for _, pn := range names {
		p := pkgs[pn]
		// package-level variables
		for _, f := range p.files {
			for _, d := range f.Decls {
				if gd, ok := d.(*ast.GenDecl); ok && gd.Tok == token.VAR {
					for _, sp := range gd.Specs {
						for _, id := range sp.(*ast.ValueSpec).Names {
							globals = append(globals, pn+"."+id.Name)
						}
					}
				}
			}
		}
		// functions that return fresh slices/maps: fixpoint over the package
		fresh := map[string]bool{}
		var fds []*ast.FuncDecl
		for _, f := range p.files {
			for _, d := range f.Decls {
				if fd, ok := d.(*ast.FuncDecl); ok {
					fds = append(fds, fd)
				}
			}
		}
		for changed := true; changed; {
			changed = false
			for _, fd := range fds {
				key := fd.Name.Name
				if fd.Recv != nil {
					key = "." + key
				}
				if fresh[key] {
					continue
				}
				// a method name is fresh when, assuming it is, every method of that
				// name returns only fresh storage (greatest fixed point: a method may
				// delegate to the same method of another type)
				fresh[key] = true
				ok := true
				any := false
				for _, other := range fds {
					same := other == fd || (fd.Recv != nil && other.Recv != nil && other.Name.Name == fd.Name.Name)
					if !same {
						continue
					}
					e2 := analyseFunc(p, pn, other, fresh)
					for _, r := range e2.returns {
						any = true
						if r != "fresh" {
							ok = false
						}
					}
				}
				if ok && any {
					changed = true
				} else {
					delete(fresh, key)
				}
			}
		}
		for _, fd := range fds {
			e := analyseFunc(p, pn, fd, fresh)
			rows = append(rows, fmt.Sprintf("  {| fe_pkg := %s; fe_name := %s; fe_exported := %v;\n     fe_writes_global := %s; fe_mutates := %s; fe_returns := %s; fe_stores := %s; fe_go := %d |}",
				coqStr(e.pkg), coqStr(e.name), e.exported, coqStrList(e.writesGlobal), coqStrList(e.mutates), coqStrList(e.returns), coqStrList(e.storesParam), e.goStmts))
		}
	}
	fmt.Fprintf(&sb, "Definition gen_package_vars : list bytes := %s.\n\n", coqStrList(globals))
	fmt.Fprintf(&sb, "Definition gen_exposed_types : list bytes := %s.\n\n", coqStrList(exposedTypes(pkgs)))
	fmt.Fprintf(&sb, "Definition gen_effects : list fn_effect :=\n [\n%s\n ].\n", strings.Join(rows, ";\n"))
	return sb.String()
}

// exposedTypes: the named types of the module reachable from the exported API:
// parameter and result types of exported functions and methods of exported
// types, and from there through fields (exported or not), elements and pointers.
func exposedTypes(pkgs map[string]*pkgInfo) []string {
	seen := map[string]bool{}
	var visit func(t types.Type)
	visit = func(t types.Type) {
		switch x := t.(type) {
		case *types.Pointer:
			visit(x.Elem())
		case *types.Slice:
			visit(x.Elem())
		case *types.Array:
			visit(x.Elem())
		case *types.Map:
			visit(x.Key())
			visit(x.Elem())
		case *types.Chan:
			visit(x.Elem())
		case *types.Named:
			if x.Obj().Pkg() == nil || !strings.Contains(x.Obj().Pkg().Path(), "lib-secs2-hsms-go") {
				return
			}
			key := x.Obj().Pkg().Name() + "." + x.Obj().Name()
			if seen[key] {
				return
			}
			seen[key] = true
			visit(x.Underlying())
		case *types.Struct:
			for i := 0; i < x.NumFields(); i++ {
				visit(x.Field(i).Type())
			}
		case *types.Signature:
			for i := 0; i < x.Params().Len(); i++ {
				visit(x.Params().At(i).Type())
			}
			for i := 0; i < x.Results().Len(); i++ {
				visit(x.Results().At(i).Type())
			}
		case *types.Interface:
			for i := 0; i < x.NumMethods(); i++ {
				visit(x.Method(i).Type())
			}
		}
	}
	for _, p := range pkgs {
		if p.pkg == nil {
			continue
		}
		sc := p.pkg.Scope()
		for _, n := range sc.Names() {
			o := sc.Lookup(n)
			if !o.Exported() {
				continue
			}
			switch x := o.(type) {
			case *types.Func:
				visit(x.Type())
			case *types.TypeName:
				visit(x.Type())
				if named, ok := x.Type().(*types.Named); ok {
					for i := 0; i < named.NumMethods(); i++ {
						if named.Method(i).Exported() {
							visit(named.Method(i).Type())
						}
					}
				}
			}
		}
	}
	var out []string
	for k := range seen {
		out = append(out, k)
	}
	sort.Strings(out)
	return out
}
