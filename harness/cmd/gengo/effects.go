package main

// effects.go — per-function effect summary (writes, retained parameters,
// returned fields). Filled in with the C11/C17 machinery.

func genEffects(pkgs map[string]*pkgInfo) string {
	return genHeader + "Definition gen_effects_placeholder : nat := 0.\n"
}
