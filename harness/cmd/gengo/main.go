// gengo — the translator: regenerates the table-like and straight-line parts
// of the Coq model from /repo's current source.
//
//	gengo -repo /repo -out /verif/coq/gen
//
// writes Tables.v (constants and maps of interface.go, constant blocks of
// hsms/parser.go and ast/hsms.go), Ctrl.v (the eight control-message
// constructors, Type() and ToBytes() of ControlMessage, statement by statement)
// and Effects.v (per-function summary of writes and of slices that cross the
// API, see effects.go). A statement outside the recognised forms is translated
// to a definition that cannot satisfy the tie lemmas, and is listed in a comment.
package main

import (
	"flag"
	"fmt"
	"go/ast"
	"go/constant"
	"go/importer"
	"go/parser"
	"go/token"
	"go/types"
	"os"
	"path/filepath"
	"sort"
	"strings"
)

type pkgInfo struct {
	fset  *token.FileSet
	files []*ast.File
	info  *types.Info
	pkg   *types.Package
}

func loadPkg(dir, path string) (*pkgInfo, error) {
	fset := token.NewFileSet()
	pkgs, err := parser.ParseDir(fset, dir, func(fi os.FileInfo) bool {
		return !strings.HasSuffix(fi.Name(), "_test.go") && !strings.HasPrefix(fi.Name(), "verif_")
	}, parser.ParseComments)
	if err != nil {
		return nil, err
	}
	var files []*ast.File
	for _, p := range pkgs {
		names := make([]string, 0, len(p.Files))
		for n := range p.Files {
			names = append(names, n)
		}
		sort.Strings(names)
		for _, n := range names {
			files = append(files, p.Files[n])
		}
	}
	info := &types.Info{Types: map[ast.Expr]types.TypeAndValue{}, Defs: map[*ast.Ident]types.Object{},
		Uses: map[*ast.Ident]types.Object{}, Selections: map[*ast.SelectorExpr]*types.Selection{}}
	conf := types.Config{Importer: importer.ForCompiler(fset, "source", nil), Error: func(error) {}}
	pkg, _ := conf.Check(path, fset, files, info)
	return &pkgInfo{fset, files, info, pkg}, nil
}

func (p *pkgInfo) constInt(e ast.Expr) (int64, bool) {
	tv, ok := p.info.Types[e]
	if !ok || tv.Value == nil {
		return 0, false
	}
	v := constant.ToInt(tv.Value)
	if v.Kind() != constant.Int {
		return 0, false
	}
	return constant.Int64Val(v)
}

func (p *pkgInfo) constString(e ast.Expr) (string, bool) {
	tv, ok := p.info.Types[e]
	if !ok || tv.Value == nil || tv.Value.Kind() != constant.String {
		return "", false
	}
	return constant.StringVal(tv.Value), true
}

func (p *pkgInfo) funcDecl(name string, recv string) *ast.FuncDecl {
	for _, f := range p.files {
		for _, d := range f.Decls {
			fd, ok := d.(*ast.FuncDecl)
			if !ok || fd.Name.Name != name {
				continue
			}
			if recv == "" && fd.Recv == nil {
				return fd
			}
			if recv != "" && fd.Recv != nil && len(fd.Recv.List) == 1 {
				t := fd.Recv.List[0].Type
				if st, ok := t.(*ast.StarExpr); ok {
					t = st.X
				}
				if id, ok := t.(*ast.Ident); ok && id.Name == recv {
					return fd
				}
			}
		}
	}
	return nil
}

func coqStr(s string) string {
	return `(String.list_byte_of_string "` + strings.ReplaceAll(s, `"`, `""`) + `"%string)`
}

// the map literal assigned to variable name inside function fn
func (p *pkgInfo) mapLit(fn, name string) ([][2]string, error) {
	fd := p.funcDecl(fn, "")
	if fd == nil {
		return nil, fmt.Errorf("function %s not found", fn)
	}
	var res [][2]string
	found := false
	var err error
	ast.Inspect(fd.Body, func(n ast.Node) bool {
		as, ok := n.(*ast.AssignStmt)
		if !ok || len(as.Lhs) != 1 || len(as.Rhs) != 1 {
			return true
		}
		id, ok := as.Lhs[0].(*ast.Ident)
		if !ok || id.Name != name {
			return true
		}
		cl, ok := as.Rhs[0].(*ast.CompositeLit)
		if !ok {
			return true
		}
		found = true
		for _, el := range cl.Elts {
			kv, ok := el.(*ast.KeyValueExpr)
			if !ok {
				err = fmt.Errorf("%s: element is not key:value", name)
				return false
			}
			k, ok1 := p.constString(kv.Key)
			v, ok2 := p.constInt(kv.Value)
			if !ok1 || !ok2 {
				err = fmt.Errorf("%s: non-constant entry", name)
				return false
			}
			res = append(res, [2]string{k, fmt.Sprint(v)})
		}
		return false
	})
	if !found {
		return nil, fmt.Errorf("%s: map literal not found in %s", name, fn)
	}
	return res, err
}

// package-level integer constants whose names have one of the prefixes
func (p *pkgInfo) constBlock(prefixes ...string) [][2]string {
	var res [][2]string
	for _, f := range p.files {
		for _, d := range f.Decls {
			gd, ok := d.(*ast.GenDecl)
			if !ok || gd.Tok != token.CONST {
				continue
			}
			for _, sp := range gd.Specs {
				vs := sp.(*ast.ValueSpec)
				for _, id := range vs.Names {
					for _, pre := range prefixes {
						if strings.HasPrefix(id.Name, pre) {
							if c, ok := p.info.Defs[id].(*types.Const); ok {
								if v, ok := constant.Int64Val(constant.ToInt(c.Val())); ok {
									res = append(res, [2]string{id.Name, fmt.Sprint(v)})
								}
							}
						}
					}
				}
			}
		}
	}
	return res
}

func tableDef(sb *strings.Builder, name string, rows [][2]string) {
	fmt.Fprintf(sb, "Definition %s : list (bytes * Z) :=\n  [", name)
	for i, r := range rows {
		if i > 0 {
			sb.WriteString(";\n   ")
		}
		fmt.Fprintf(sb, "(%s, %s)", coqStr(r[0]), r[1])
	}
	sb.WriteString("].\n\n")
}

func writeIfChanged(path, content string) {
	old, err := os.ReadFile(path)
	if err == nil && string(old) == content {
		return
	}
	if err := os.WriteFile(path, []byte(content), 0o644); err != nil {
		fmt.Fprintln(os.Stderr, err)
		os.Exit(1)
	}
}

const genHeader = "(* GENERATED by harness/cmd/gengo from /repo's working tree. Do not edit. *)\nFrom Secs Require Import Bytes.\nOpen Scope Z_scope.\n\n"

func genTables(astp, hsmsp *pkgInfo) string {
	var sb strings.Builder
	sb.WriteString(genHeader)
	var problems []string
	max := "0"
	for _, r := range astp.constBlock("MAX_BYTE_SIZE") {
		max = r[1]
	}
	fmt.Fprintf(&sb, "Definition gen_MAX_BYTE_SIZE : Z := %s.\n\n", max)
	bpv, err := astp.mapLit("getDataByteLength", "bytePerValue")
	if err != nil {
		problems = append(problems, err.Error())
	}
	tableDef(&sb, "gen_byte_per_value", bpv)
	fc, err := astp.mapLit("getHeaderBytes", "formatCode")
	if err != nil {
		problems = append(problems, err.Error())
	}
	tableDef(&sb, "gen_format_code", fc)
	tableDef(&sb, "gen_ast_stypes", astp.constBlock("sType"))
	tableDef(&sb, "gen_dec_stypes", hsmsp.constBlock("sType"))
	tableDef(&sb, "gen_dec_format_codes", hsmsp.constBlock("formatCode"))
	fmt.Fprintf(&sb, "Definition gen_tables_problems : nat := %d.\n", len(problems))
	for _, p := range problems {
		fmt.Fprintf(&sb, "(* PROBLEM: %s *)\n", p)
	}
	return sb.String()
}

func main() {
	repo := flag.String("repo", "/repo", "repository root")
	out := flag.String("out", "", "output directory for the generated .v files")
	flag.Parse()
	if *out == "" {
		fmt.Fprintln(os.Stderr, "gengo: -out required")
		os.Exit(2)
	}
	const mod = "github.com/wolimst/lib-secs2-hsms-go"
	// the source importer resolves the module's own import paths through GOPATH-less
	// lookup only for the standard library; the packages of the module are loaded here
	astp, err := loadPkg(filepath.Join(*repo, "pkg/ast"), mod+"/pkg/ast")
	if err != nil {
		fmt.Fprintln(os.Stderr, "gengo:", err)
		os.Exit(1)
	}
	hsmsp, err := loadPkg(filepath.Join(*repo, "pkg/parser/hsms"), mod+"/pkg/parser/hsms")
	if err != nil {
		fmt.Fprintln(os.Stderr, "gengo:", err)
		os.Exit(1)
	}
	must(os.MkdirAll(*out, 0o755))
	writeIfChanged(filepath.Join(*out, "Tables.v"), genTables(astp, hsmsp))
	writeIfChanged(filepath.Join(*out, "Ctrl.v"), genCtrl(astp))
	smlp, err := loadPkg(filepath.Join(*repo, "pkg/parser/sml"), mod+"/pkg/parser/sml")
	if err != nil {
		fmt.Fprintln(os.Stderr, "gengo:", err)
		os.Exit(1)
	}
	writeIfChanged(filepath.Join(*out, "Effects.v"), genEffects(map[string]*pkgInfo{"ast": astp, "hsms": hsmsp, "sml": smlp}))
}

func must(err error) {
	if err != nil {
		fmt.Fprintln(os.Stderr, "gengo:", err)
		os.Exit(1)
	}
}
