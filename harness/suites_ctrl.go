package main

// suites_ctrl.go — suite C14: control messages.

func init() {
	suites["C14"] = suiteC14
}

func suiteC14(c *Ctx) {
	g := c.gen()
	var steps []Step
	nflush := 0
	flush := func(label string) {
		if len(steps) > 0 {
			// every other batch with all byte slices handed in or out written over afterwards
			nflush++
			c.emit(Case{label, steps, nflush%2 == 0 || label == "lengths"})
			steps = nil
		}
	}
	// all 65,536 session ids through every constructor that takes one
	for sid := 0; sid < 65536; sid++ {
		sys := []byte{byte(sid), byte(sid >> 3), byte(sid * 7), byte(sid >> 8)}
		switch sid % 4 {
		case 0:
			steps = append(steps, Step{Op: "CSQ", Sid: sid, Sys: sys})
		case 1:
			steps = append(steps, Step{Op: "CDQ", Sid: sid, Sys: sys})
		case 2:
			steps = append(steps, Step{Op: "CPQ", Sid: sid, Sys: sys})
		default:
			steps = append(steps, Step{Op: "CRJ", Sid: sid, B1: byte(sid >> 4), B2: byte(sid >> 7), Sys: sys, B3: byte(sid >> 2)})
		}
		if len(steps) == 2048 {
			flush("session-ids")
		}
	}
	flush("session-ids")
	// every session id once more for the constructors not covered above (rotated)
	for sid := 0; sid < 65536; sid++ {
		sys := []byte{1, 2, 3, byte(sid)}
		switch (sid + 1) % 4 {
		case 0:
			steps = append(steps, Step{Op: "CSQ", Sid: sid, Sys: sys})
		case 1:
			steps = append(steps, Step{Op: "CDQ", Sid: sid, Sys: sys})
		case 2:
			steps = append(steps, Step{Op: "CPQ", Sid: sid, Sys: sys})
		default:
			steps = append(steps, Step{Op: "CRJ", Sid: sid, B1: 0, B2: 9, Sys: sys, B3: 2})
		}
		if len(steps) == 4096 {
			flush("session-ids-2")
		}
	}
	flush("session-ids-2")
	// all status codes of the responses, on requests of the right and of every wrong kind
	for st := 0; st < 256; st++ {
		base := len(steps)
		sys := g.sysBytes()
		for len(sys) < 4 {
			sys = append(sys, 9)
		}
		steps = append(steps,
			Step{Op: "CSQ", Sid: g.sessionID(), Sys: sys},                                                 // base+0
			Step{Op: "CDQ", Sid: g.sessionID(), Sys: sys},                                                 // base+1
			Step{Op: "CLQ", S: sys},                                                                       // base+2
			Step{Op: "CPQ", Sid: g.sessionID(), Sys: sys},                                                 // base+3
			Step{Op: "CRJ", Sid: g.sessionID(), B1: byte(st), B2: byte(255 - st), Sys: sys, B3: byte(st)}, // base+4
			Step{Op: "CN", S: []byte{1, 2, 3, 4, byte(st % 3), byte(st % 11), 5, 6, 7, 8}},                // base+5
		)
		for k := 0; k < 6; k++ {
			steps = append(steps, Step{Op: "CSR", Ref: base + k, B1: byte(st)})
			steps = append(steps, Step{Op: "CDR", Ref: base + k, B1: byte(st)})
			steps = append(steps, Step{Op: "CLR", Ref: base + k})
		}
		// a response to a response, and to a data message
		steps = append(steps, Step{Op: "CSR", Ref: base + 6, B1: 1}, Step{Op: "NE"})
		ne := len(steps) - 1
		steps = append(steps, Step{Op: "NH", Name: nil, Stream: 1, Func: 1, WBit: 1, Dir: []byte("H->E"), Ref: ne, Sid: 1, Sys: []byte{0, 0, 0, 1}})
		steps = append(steps, Step{Op: "CSR", Ref: len(steps) - 1, B1: 0}, Step{Op: "CLR", Ref: len(steps) - 1})
		if st%8 == 7 {
			flush("responses")
		}
	}
	flush("responses")
	// all reason codes x boundary PType/SType
	for reason := 0; reason < 256; reason++ {
		for _, pt := range []byte{0, 1, 2, 7, 255} {
			for _, st := range []byte{0, 1, 2, 9, 128, 255} {
				steps = append(steps, Step{Op: "CRJ", Sid: g.sessionID(), B1: pt, B2: st, Sys: []byte{4, 3, 2, 1, 0}, B3: byte(reason)})
			}
		}
		if reason%16 == 15 {
			flush("reject")
		}
	}
	flush("reject")
	// system bytes shorter than four, exactly four, longer
	for n := 0; n <= 6; n++ {
		sys := make([]byte, n)
		for i := range sys {
			sys[i] = byte(0xa0 + i)
		}
		steps = append(steps, Step{Op: "CSQ", Sid: 1, Sys: sys}, Step{Op: "CDQ", Sid: 1, Sys: sys}, Step{Op: "CPQ", Sid: 1, Sys: sys},
			Step{Op: "CLQ", S: sys}, Step{Op: "CRJ", Sid: 1, B1: 1, B2: 1, Sys: sys, B3: 1})
	}
	// headers of every length through NewHSMSControlMessage
	for n := 0; n <= 12; n++ {
		h := make([]byte, n)
		for i := range h {
			h[i] = byte(i + 1)
		}
		if n > 5 {
			h[4], h[5] = 0, 5
		}
		steps = append(steps, Step{Op: "CN", S: h})
	}
	flush("lengths")
	// Type() and decoding on all 65,536 (PType, SType) pairs
	for p := 0; p < 256; p++ {
		for s := 0; s < 256; s++ {
			steps = append(steps, Step{Op: "CN", S: []byte{byte(p ^ s), 0x34, byte(s), byte(p), byte(p), byte(s), 9, 8, 7, 6}})
		}
		n := len(steps)
		for k := 0; k < n; k++ {
			if p < 3 || k%9 == p%9 {
				steps = append(steps, Step{Op: "RP", Ref: k})
			}
		}
		flush("type-pairs")
	}
}
